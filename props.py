# Property table for ./check: which Test functions decide a property, how they are sharded and sized.
# checks_* is rapid's case count PER SHARD; runs are bounded by case counts, time-outs are only guards.

PROPS = {}

ENGINES = [
    {"name": "harness", "path": "/verif/harness", "serves_properties": [],
     "kind_free_text": "Go test binary (module github.com/gethiox/HIDI/verifharness, replace => /repo) built from /repo's working tree on "
                       "every invocation; rapid generators + reference models/monitors; sharded by ./check"},
]


def prop(pid, level, rule, parts, level_text, level_note, technique, exhaustive=False, assumptions=(), engine="harness"):
    PROPS[pid] = dict(level=level, rule=rule, parts=parts, exhaustive=exhaustive, assumptions=list(assumptions),
                      level_text=level_text, level_note=level_note, technique=technique, engine=engine)
    for e in ENGINES:
        if e["name"] == engine:
            e["serves_properties"].append(pid)


prop(
    "C11", "exploration",
    "Enumerated: every string of length <= L over the 65-symbol alphabet a-z A-Z 0-9 # - space (L=3 quick, "
    "L=4 thorough = 18.1M strings), all 128 numbers in both directions, plus rapid-sampled mutations "
    "(replace/insert/delete/other letter/other octave) of valid names up to length 8. Oracle: an independent "
    "note grammar (letter A-G any case, optional # except after E/B, octave -2..8, value <= 127). "
    "Non-trivial = the string has the outer shape letter #? -? digit (the only strings that can be mis-accepted) "
    "or is a number round trip; distinct by the string itself. 'X-0' spellings are not asserted.",
    [
        dict(test="TestC11Exhaustive", shards_quick=5, shards_thorough=13, replayable=False),
        dict(test="TestC11Numbers", shards=1, replayable=False),
        dict(test="TestC11", shards_quick=4, shards_thorough=16, checks_quick=50000, checks_thorough=500000),
    ],
    level_text="Bounded-exhaustive plus sampled generated-input search against an independent grammar: every string up to "
               "length 3 (quick) / 4 (thorough) over the property's alphabet and all 128 numbers are decided; longer strings are sampled.",
    level_note="Trusted: the 40-line reference grammar in c11_test.go; strings longer than 4 are only sampled.",
    technique="property-based testing: bounded exhaustive enumeration + rapid mutation generator vs independent reference grammar, round-trip",
    exhaustive=True,
    assumptions=["StringToNote / NoteToPitch / NoteToOctave are the conversion used by the parser and by Event.String"],
)


# Properties not (yet) claimed. Kept current by hand; every id of properties.jsonl is either in PROPS or here.
_PENDING = "check not built yet in this round; planned as property-based test per DESIGN.md"
NOT_APPLICABLE = [{"property_id": "C%02d" % i, "reason": _PENDING} for i in range(1, 21) if "C%02d" % i not in PROPS]
