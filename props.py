# Property table for ./check: which Test functions decide a property, how they are sharded and sized.
# checks_* is rapid's case count PER SHARD; runs are bounded by case counts, time-outs are only guards.

PROPS = {}

ENGINES = [
    {"name": "hidi-inpackage", "path": "/verif/overlay/cmdhidi_common_test.go", "serves_properties": ["C09"],
     "kind_free_text": "in-package test of cmd/hidi (package main) built with go test -overlay + alternative go.mod; the cgo ALSA driver is replaced by a stub"},
    {"name": "harness", "path": "/verif/harness", "serves_properties": [],
     "kind_free_text": "Go test binary (module github.com/gethiox/HIDI/verifharness, replace => /repo) built from /repo's working tree on "
                       "every invocation; rapid generators + reference models/monitors; sharded by ./check"},
]


def prop(pid, level, rule, parts, level_text, level_note, technique, exhaustive=False, assumptions=(), engine="harness"):
    PROPS[pid] = dict(level=level, rule=rule, parts=parts, exhaustive=exhaustive, assumptions=list(assumptions),
                      level_text=level_text, level_note=level_note, technique=technique, engine=engine)
    for e in ENGINES:
        if e["name"] == engine:
            e["serves_properties"].append(pid)


prop(
    "C11", "exploration",
    "Enumerated: every string of length <= L over the 65-symbol alphabet a-z A-Z 0-9 # - space (L=3 quick, "
    "L=4 thorough = 18.1M strings), all 128 numbers in both directions, plus rapid-sampled mutations "
    "(replace/insert/delete/other letter/other octave/blanks/one or two further names behind a separator) of valid names. Oracle: an independent "
    "note grammar (letter A-G any case, optional # except after E/B, octave -2..8, value <= 127). "
    "Non-trivial = the string has the outer shape letter #? -? digit (the only strings that can be mis-accepted) "
    "or is a number round trip; distinct by the string itself. 'X-0' is not a note name. Configuration path: every sampled string, and every "
    "enumerated string that is a name or a number or becomes one when its blanks are dropped, is also written into a configuration file as a key's "
    "note (\"s\" and \"s,<0-15>\"): accepted with the reference value iff it is one of the 128 names or a plain decimal 0-127 (signs, leading zeros "
    "and other comma forms are not decided). History part: "
    "rapid-generated sequences of arbitrary 3-byte events (data bytes 0..255) are printed with Event.String in a fresh "
    "child process each; events of the note-carrying types with a note byte < 128 must print the reference name whatever "
    "was formatted before (non-trivial = a valid note printed after a byte >= 128 with the same low 7 bits).",
    [
        dict(test="TestC11Exhaustive", shards_quick=5, shards_thorough=13, replayable=False),
        dict(test="TestC11Numbers", shards=1, replayable=False),
        dict(test="TestC11", shards_quick=4, shards_thorough=16, checks_quick=50000, checks_thorough=500000),
        dict(test="TestC11History", shards_quick=6, shards_thorough=16, checks_quick=250, checks_thorough=4000),
        dict(test="FuzzC11", fuzz=True, tiers=["thorough"], fuzztime="120s", shards=1, replay_test="TestC11", timeout_thorough=900),
    ],
    level_text="Bounded-exhaustive plus sampled generated-input search against an independent grammar: every string up to "
               "length 3 (quick) / 4 (thorough) over the property's alphabet and all 128 numbers are decided; longer strings are sampled.",
    level_note="Trusted: the 40-line reference grammar in c11_test.go; strings longer than 4 are only sampled.",
    technique="property-based testing: bounded exhaustive enumeration + rapid mutation generator vs independent reference grammar, round-trip",
    exhaustive=True,
    assumptions=["StringToNote / NoteToPitch / NoteToOctave are the conversion used by the parser and by Event.String"],
)


_ENGINE_NOTE = ("Trusted: the harness' device runner (EV_SYN fences on an unbuffered event channel), the receiver/monitor code and, where named, "
                "the ~200-line reference model in model.go written from the property text and README. Configurations go through the real ParseData. "
                "Histories are sampled (rapid), not enumerated, except where a part says so; |octave| <= 12, |semitone| <= 120.")

prop(
    "C01", "fault_enumeration",
    "rapid-generated device descriptions (1-3 mappings, 2-8 collision-prone note keys on 1-2 sub-handlers, all action keys incl. panic, "
    "0-2 key-emulating axes, 4 collision modes) x alternating press/release histories of 1-60 events (state-changing taps while keys are held, "
    "bursts, key repeats, MIDI-in noise of every legal message shape, events of other types - EV_SYN codes 1-3 incl. SYN_DROPPED, EV_MSC scan codes, "
    "EV_REL, EV_LED, EV_SW with key-like codes and values -, unmapped keys, axis moves); the event stream is closed after the last event, so the random length is "
    "the injected disconnect point; TestC01Cuts additionally runs EVERY prefix of generated histories. Oracle: a receiver "
    "(Note On adds, Note Off / CC123 removes) must have nothing sounding whenever no key is down and all axes are at rest, and after "
    "ProcessEvents returns; nothing may be emitted afterwards. Worlds include a second sub-handler reporting a note key with the same code "
    "as a key of the first, and action keys that are also listed as note keys. TestC01BusySink ends the stream while the reader of the MIDI "
    "output is busy (queue full for 0.6-0.9 s quick, up to 5.2 s thorough): processing may end late but not before every note is released. Non-trivial = (a state-changing action while a note key was held AND a second "
    "note key overlapping) OR disconnect with a key/axis held; distinct by hash of (description, history).",
    [
        dict(test="TestC01", shards=16, checks_quick=8000, checks_thorough=60000),
        dict(test="TestC01Cuts", shards=16, checks_quick=250, checks_thorough=2500),
        dict(test="TestC01BusySink", shards=16, checks_quick=8, checks_thorough=40, shrinktime="60s"),
    ],
    level_text="Generated-history search with disconnect injected at every prefix of bounded histories (fault enumeration over cut points) and "
               "at random points of longer ones; the oracle is receiver-side only, so it does not depend on which messages HIDI chooses to send.",
    level_note=_ENGINE_NOTE,
    technique="stateful property-based testing (rapid) with receiver-side oracle + disconnect injection at every prefix",
)

prop(
    "C02", "exploration",
    "Same world generator, biased: after 70% of note presses 1-4 state-changing taps (octave/semitone/channel/mapping/multinote/cc_learning) "
    "are inserted before the release; mappings where the held key is unmapped or mapped to another note; offsets that wrap; 0-2 key-emulating "
    "axes that may be held deflected across the actions and are shaped differently or absent in the other mappings. Oracle: every "
    "Note Off at a key's release carries exactly the channel/pitch of the Note On observed at its press (reference model when the mode "
    "suppressed the Note On), exactly one in mode off, at most one otherwise, never a Note On; every octave/semitone/channel/mapping/"
    "multinote/cc_learning press or release emits zero messages. How octave/semitone/channel/mapping move is C04's business: from the first step at "
    "which the device reports another state than the model of C04, only what is observed on the wire is asserted (pinned releases, silent actions). "
    "Non-trivial = at least one key released under a different "
    "(octave, semitone, channel, mapping) than at its press; distinct by hash of the case.",
    [dict(test="TestC02", shards=16, checks_quick=8000, checks_thorough=60000)],
    level_text="Generated-history search against a wire-level pairing oracle (observed Note On vs observed Note Off per key).",
    level_note=_ENGINE_NOTE,
    technique="stateful property-based testing (rapid), observed-press/observed-release pairing oracle",
)

prop(
    "C03", "exploration",
    "Worlds with 2-8 note keys whose base notes lie within +-2 semitones / +-1-2 octaves of one centre and offsets in {0,1,7,15}, so that "
    "keys collide directly, through transposition taps made between presses, or through channel changes; 4 modes. TestC03Words enumerates "
    "ALL alternating press/release words over 3 colliding keys up to length 8 (quick: 6) per mode. Oracle: reference model of the four emission "
    "rules, exact message sequence per press/release step (a history is asserted up to the first step before which the device reports another "
    "octave/semitone/channel/mapping than the model of C04 - which keys collide follows from those, how they move is C04's business). "
    "Non-trivial = a press or release while >= 1 other key holds the same "
    "(channel, pitch); distinct by hash of the case.",
    [
        dict(test="TestC03", shards=16, checks_quick=8000, checks_thorough=60000),
        dict(test="TestC03Words", shards_quick=4, shards_thorough=16, replayable=False),
    ],
    level_text="Generated-history search plus bounded-exhaustive press/release words, compared step by step with a reference model of the mode rules.",
    level_note=_ENGINE_NOTE,
    technique="model-based property-based testing (rapid) + bounded exhaustive word enumeration vs reference model",
)

prop(
    "C04", "exploration",
    "Worlds with defaults anywhere (octave -10..10, semitone -60..60, channel 1-16, velocity 0/1/64/100/127, any default mapping), base notes "
    "0-127, offsets {0,1,7,15}; histories of taps, bursts of up to 14 taps (reaching |octave| 12, channel 16, last mapping), holds, up/down pairs "
    "pressed and released in both orders; generator keeps the quantifier's precondition (no action pressed while a complete pair is held). "
    "TestC04Grid enumerates every base note x octave -12..12 x semitone in {-13,-1,0,1,13} x channel x offset, and every base note x octave -13..13 x "
    "every semitone shift -30..30 (octaves and semitones that cancel, or almost). Oracle: after every step "
    "State() equals the reference model; every note press emits exactly NoteOn(((ch-1+off) mod 16)+1, base+12*oct+semi, velocity) or nothing "
    "when out of 0-127. Non-trivial = out-of-range press, |12*octave| > 127, wrapping offset, saturating step or pair reset.",
    [
        dict(test="TestC04", shards=16, checks_quick=8000, checks_thorough=60000),
        dict(test="TestC04Grid", shards=16, replayable=False),
    ],
    level_text="Generated-history search plus an exhaustive arithmetic grid, compared with a reference model in unbounded integers.",
    level_note=_ENGINE_NOTE,
    technique="model-based property-based testing (rapid) + exhaustive arithmetic grid vs reference model",
)

prop(
    "C13", "exploration",
    "Base histories without panic (C03-like worlds that always have a panic key) and a panic press inserted at a generated index (thorough: "
    "TestC13All inserts at EVERY index), released immediately or a few events later, also while a complete up/down pair is held; in a quarter of the "
    "cases the panic is triggered by pushing a hat bound to the panic action instead of the key; the worlds have exit sequences (often containing "
    "the panic key) that never complete; a third of the histories bind any action to any key (AnyAction), and a tenth construct a STALE pair mark "
    "directly (pair X completed while pair Y is held, Y released, panic here: X is marked held although its reset never ran). "
    "Oracle: (1) the panic step emits CC123 and a Note Off for each of the 128 pitches on the channel the device reported before the panic, beyond that only messages "
    "that silence (Note Offs and All Notes Off / All Sound Off on any channel), in any order; state unchanged; "
    "(2) metamorphic: every other step emits exactly what the same history without the panic emits (releases of keys held across the panic may "
    "emit nothing instead; a panic that both histories contain is compared as a set of messages), states equal; (3) quiescence/disconnect leave nothing sounding. Non-trivial = panic with >= 1 key held and a later press.",
    [
        dict(test="TestC13", shards=16, checks_quick=4000, checks_thorough=40000),
        dict(test="TestC13All", shards=16, checks_quick=150, checks_thorough=1500),
    ],
    level_text="Generated-history search with a metamorphic oracle (history with panic vs the same history without).",
    level_note=_ENGINE_NOTE,
    technique="metamorphic property-based testing (rapid): with-panic vs without-panic runs of the real device",
)

prop(
    "C14", "exploration",
    "Worlds with an exit sequence of 0-3 keys drawn from note keys, action keys (incl. panic) and unmapped keys; histories of up to 40 "
    "alternating events biased (60%) to the sequence keys so that completions in every order, partial holds and early releases are frequent. "
    "Oracle: no signal before the first step at which all sequence keys are down; at that press exactly one signal, zero MIDI messages and "
    "State() unchanged - the first time and every later time a press of a sequence key makes the sequence completely held; a signal while the "
    "sequence is not completely held is spurious, also after a completion; empty sequence: never a signal; the history ends with a disconnect and "
    "nothing may stay sounding. Left open: presses of OTHER keys while the whole sequence stays held. Non-trivial = sequence of >= 2 keys completed by a key other than the last configured one, "
    "a sequence key that is also a note/action key, or a near miss (a sequence key released before completion).",
    [dict(test="TestC14", shards=16, checks_quick=8000, checks_thorough=60000)],
    level_text="Generated-history search against a direct statement of the exit-sequence rule (held-set oracle).",
    level_note=_ENGINE_NOTE,
    technique="stateful property-based testing (rapid) with held-set oracle on the signal channel",
)


_ANALOG_NOTE = ("Trusted: the exact rational (math/big) reference of the shaping chain in analog.go (normalise, centre shift, deadzone rescale, flip), "
                "written from the README; the device runner; configurations go through the real ParseData. The device's assumption that an axis "
                "starts at its physical rest (first event repeating that position is not transmitted) is accepted, nothing is asserted about a "
                "suppressed event.")

prop(
    "C06", "exploration",
    "One axis per case (any of the kernel's axis codes): range in {0..255, -128..127, -127..127, -512..511, 0..1023, -32768..32767, 0..65535, hat -1..1, "
    "0..1, 0..2, 0..4, 0..100, -100..100, 0..256, 0..4095, -2048..2047, 0..127, 0..16383, ranges that do not start at 0 (1..255, 64..192, 1472..5472, "
    "100..200, 1..2) and one-sided ranges (-255..0, -1..0, -32768..0)}; uni-/bidirectional CC (also both directions on one controller) "
    "or pitch bend; deadzone from {0,.002,.05,.1,.25,.49,.5,.9,.95,.999,1.0} or k/1000, given as specific entry, per-handler default or absent; flip; "
    "deadzone_at_center (also on signed axes, where it changes nothing); channel offsets; default channel. Positions: EVERY raw value ascending (and descending) for ranges up to "
    "1024 values, otherwise both ends, centre, deadzone edges (each +-3) plus 32-256 sampled values ascending; then 0-40 arbitrary (previous, new) "
    "pairs; in 1/8 of the cases a second event node with the SAME name reports its own range for the axis and is heard after the first (2-40 positions "
    "of its own range). Oracle per event on the receiver's last value: within one step of the exact rational value (pitch bend: of the map anchored at "
    "0/8192/16383 or of the linear map), monotonic in raw, physical end stops exactly 0/127/16383, inside the deadzone exactly the rest value "
    "(0, 63|64, 8192), only the axis' own controllers addressed, something transmitted once the position differs from rest. "
    "Non-trivial = the case contains an end stop, a position inside/at the deadzone, or a pair crossing the deadzone edge.",
    [dict(test="TestC06", shards=16, checks_quick=2000, checks_thorough=20000)],
    level_text="Generated-input search; per generated configuration the sweep over a <=10-bit axis is exhaustive, 16-bit axes are sampled with edges.",
    level_note=_ANALOG_NOTE,
    technique="property-based testing (rapid) with exhaustive per-axis sweeps vs exact rational reference transfer function",
)

prop(
    "C07", "exploration",
    "1-3 bidirectional CC axes (pairwise distinct controller numbers, offsets, signed / centred unsigned / plain unsigned / hat ranges, flip, "
    "deadzones) and a cc_learning key; 1-40 events: positions drawn from end stop of a side, exact centre, +-0..3 around centre, around half "
    "travel, random fraction; the side flips with p=0.5 per event; learning toggled with p=0.1. Oracle on the receiver's controller values: after "
    "EVERY event at most one controller of each axis is non-zero; after every transmitting event the non-zero one is on the side of the exact "
    "shaped position (both zero at rest); only the axis' controllers are addressed; while learning is held a deflection not beyond half travel "
    "transmits nothing (exactly half travel is not beyond half travel). TestC07Burst: the MIDI output queue has a capacity of 1-32 (mostly the "
    "application's 8) and a reader that takes 50-400 us per message, and the second half of >= 24 positions arrives back to back: after the burst "
    "has drained, at most one controller of each axis is non-zero and a clearly deflected stick shows on its own side. "
    "Non-trivial = a direct jump between opposite sides, a transmission while learning, or a burst of >= 8 positions.",
    [dict(test="TestC07", shards=16, checks_quick=10000, checks_thorough=60000),
     dict(test="TestC07Burst", shards=16, checks_quick=150, checks_thorough=3000, shrinktime="15s")],
    level_text="Generated-history search against receiver-side invariants.",
    level_note=_ANALOG_NOTE,
    technique="stateful property-based testing (rapid) with receiver-side invariants + exact side oracle",
)

prop(
    "C08", "exploration",
    "1-2 key-emulating axes through ParseData ({type=key, note[, note_negative != note]}, hat / signed stick / unsigned stick with or without "
    "deadzone_at_center, flip, deadzone), octave/semitone/channel keys; 1-40 events: positions at 0, 1, 0.5 of the range, within 3/1000 of the "
    "49%/50% thresholds, random; action taps interleaved. Oracle: two-direction state machine at event granularity (>= half travel: on once with "
    "note+12*octave+semitone on the current channel when configured and in range; < 49%: off; band: unchanged; out-of-range at crossing: a later "
    "Note On of the same excursion is permitted, not required), every Note Off releases exactly the Note On that was sent, never both "
    "directions sounding, a direction without a note never sounds, velocity 1-127. Positions within 1e-9 of a threshold are resynchronised from "
    "the wire, except exactly half travel on an axis without deadzone (the float chain is exact there): it has to sound. A quarter of the cases "
    "have 1-2 further mappings with the same shaping but other notes / a direction more or less / other channel offsets, and mapping_up / "
    "mapping_down taps between the positions: the Note Off still has to release what was sent (a mapping change itself may release it; a direction "
    "that gets its note only through the change may sound it later in the excursion). "
    "Non-trivial = a direction switched on; distinct by case hash.",
    [dict(test="TestC08", shards=16, checks_quick=10000, checks_thorough=60000)],
    level_text="Generated-history search against a reference state machine of the two directions.",
    level_note=_ANALOG_NOTE,
    technique="model-based stateful property-based testing (rapid) vs two-direction reference state machine",
)


prop(
    "C05", "exploration",
    "Corner configurations written as TOML text and sent through the real ParseData: default channel, velocity, key offsets, analog offsets, "
    "CC numbers and notes each drawn mostly at/inside their valid range (edges favoured) and 1 time in 16 just outside; whatever the parser "
    "accepts is run (rejections are counted, they are C10's business) with 1-30 steps: panic taps, bursts of up to 16 channel_up/down taps "
    "(every channel is reached), note taps, taps (single or 2-16 in a row) of EVERY other action in the code's own table config.SupportedActions - "
    "also on action axes - so that an action added later is exercised without the harness knowing it, and axis events at both end stops, the centre, random in-range raws, within "
    "3 raw units of every deadzone edge, and walks of single raw steps across a deadzone edge coming from outside, on "
    "cc / bidirectional cc / pitch_bend / key / action axes (ranges 0..255, -128..127, -32768..32767, -1..1, 0..1023, 0..65535, -127..127, 0..4, "
    "1..255; centred or not; default deadzone 0-0.95, own deadzone per axis in 1/4). Oracle: byte-level monitor on every emitted "
    "message: length 3, status Note On/Off, CC or Pitch Bend (so channel 1-16), both data bytes < 0x80; no panic. Non-trivial = accepted "
    "configuration with a non-default corner (channel != 1, offset >= 15, CC >= 100, velocity 1/127) whose history contains panic or an axis event.",
    [dict(test="TestC05", shards=16, checks_quick=10000, checks_thorough=80000)],
    level_text="Generated-configuration and -history search with a byte-level well-formedness monitor on everything the real device emits.",
    level_note=_ENGINE_NOTE,
    technique="property-based testing (rapid): parser-accepted corner configurations x histories, wire-format monitor",
)

prop(
    "C09", "exploration",
    "Inputs to config.ParseData (and, in TestC09Hidi, to LoadHIDIConfig of cmd/hidi): arbitrary bytes up to 2 KiB; documents up to 64 KiB "
    "built from the schema vocabulary (all struct tags, key/axis names) with values of every TOML type (ints in all bases, floats incl. inf/nan, "
    "dates, strings, arrays, inline tables), dotted keys and [x]/[[x]] confusion; 1/8 of all inputs re-encoded or behind a magic prefix (byte order "
    "marks, UTF-16 with and without its last bytes, gzip/zip/ELF/NUL prefixes, CR line ends, trailing NUL); the factory files and rapid-generated valid configurations "
    "with 1-3 mutations (delete/duplicate/swap line, retype value, rename key, truncate at a byte, drop an inline field, [x]<->[[x]], insert, "
    "corrupt a byte); thorough tier adds native coverage-guided fuzzing (go test -fuzz) seeded with factory files and known hostile inputs. "
    "Oracle: the call returns a value or an error; a panic (recovered, with its site) or no return within 10 s is a violation. "
    "TestC09Reload: 1-4 such contents as the .toml files of a hidi-config tree, loaded with LoadDeviceConfigs and loaded again 1-3 times (nothing "
    "changed, one file rewritten with another content, or saved again with the same bytes): no load panics or hangs and the same bytes on disk give "
    "the same report - the n-th read of a file is as total as the first. "
    "Non-trivial = the TOML decoder accepted the document, so HIDI's own conversion code ran (accepted, or rejected by HIDI's validation); "
    "distinct by input hash (fuzzing: inputs kept for new coverage).",
    [
        dict(test="TestC09", shards=16, checks_quick=40000, checks_thorough=600000),
        dict(test="TestC09Reload", shards=16, checks_quick=1500, checks_thorough=20000),
        dict(test="TestC09Hidi", bin="hidi", shards_quick=4, shards_thorough=16, checks_quick=20000, checks_thorough=100000),
        dict(test="FuzzC09", fuzz=True, tiers=["thorough"], fuzztime="420s", shards=1, replay_test="TestC09", timeout_thorough=1800),
    ],
    level_text="Generated-input search (grammar-based + mutation-based) and, in the thorough tier, coverage-guided fuzzing with the no-panic / "
               "no-hang oracle inside the target.",
    level_note="Trusted: Go's recover() sees every panic raised on the calling goroutine (ParseData starts none); the 10 s watchdog. "
               "The TOML decoder (go-toml v2.0.3) is part of what is exercised.",
    technique="grammar- and mutation-based property testing (rapid) + native coverage-guided fuzzing, total-function oracle",
)

prop(
    "C10", "exploration",
    "Structured descriptions (1-4 mappings with unique names, 0-3 key sub-handlers with 0-6 keys, 0-3 analog sub-handlers with 0-5 axes of all "
    "four types and every optional field independently present/absent, exit sequence 0-3, 0-8 action keys over all 14 actions, colours, "
    "identifier, defaults incl. velocity 0) rendered as TOML in random spellings (key names / aliases / xHEX, notes as numbers or names in "
    "three letter cases, \"note,offset\" or bare, inline tables or [mapping.analog.map.AXIS] sub-tables, dec/hex/octal/underscored integers, "
    "comments, blank lines, rotated field and section order). Accept side: ParseData succeeds and a semantic view of the result (exactly the "
    "fields the property lists, per axis type) equals the view built from the description; all values in MIDI range. Reject side (1/3 of cases): "
    "one invalidation from the property's list (22 kinds: unknown field at 8 anchors, unknown key/axis/exit/deadzone name, bad note text, "
    "unknown action / axis action / action_negative / type / collision mode, note / cc / offsets / velocity / default channel out of range, "
    "missing default mapping, non-decimal note numbers) must yield an error. Note numbers with leading zeros: if accepted they mean the "
    "decimal number. TestC10Files: the file is written to one fixed path, loaded with LoadDeviceConfigs, saved again in place with a second "
    "version of exactly the same length (mapping name in other letter case, or an invalid default channel) and loaded again: each load must "
    "equal ParseData of the text that is in the file at that moment, an invalid version is not served; the second version is dated now, like the "
    "first, or a day before it; 5/12 of the files are padded with 63 KiB - 1.1 MiB of comment lines (start, before the last mapping, end). TestC10Hostile: the hostile-text "
    "generator of C09 with the input-independent reject-side oracle (whatever is accepted holds only values inside the MIDI ranges and an "
    "existing default mapping). Non-trivial = an axis with an optional field, or any invalidation; distinct by case hash.",
    [dict(test="TestC10", shards=16, checks_quick=12000, checks_thorough=120000),
     dict(test="TestC10Files", shards=16, checks_quick=600, checks_thorough=8000),
     dict(test="TestC10Hostile", shards=16, checks_quick=6000, checks_thorough=60000),
     dict(test="FuzzC10", fuzz=True, tiers=["thorough"], fuzztime="180s", shards=1, replay_test="TestC10Hostile", timeout_thorough=1200)],
    level_text="Generated-input search with an independently built expected configuration (round trip description -> text -> parser -> view) "
               "and single-field invalidations that must be rejected.",
    level_note="Trusted: the TOML emitter in desc.go (spellings limited to what TOML 1.0 defines), the view functions in c10_test.go. Not asserted: "
               "absent collision_mode / channel / mapping keys, "
               "controller numbers 120-127, offsets on action axes.",
    technique="property-based testing (rapid): round-trip against independently built expected value + single-field invalidation",
)


prop(
    "C12", "exploration",
    "A temporary hidi-config tree per case (the process chdirs into it): for keyboards and gamepads independently each of the four candidate "
    "files {user exact, user default, factory exact, factory default} present or absent (TestC12Matrix: all 256 combinations x {keyboard, "
    "joystick} x {matching, non-matching identifier}); device type from {Keyboard, Joystick, Mouse, Unknown, 7}; 0-6 noise entries: file that "
    "fails TOML, valid TOML that fails validation, unknown field, empty, binary, a decoder-crashing document, a valid higher-precedence-looking "
    "config without .toml suffix / with .toml.bak etc., nested directories, a directory named x.toml, a dangling symlink, .TOML upper case "
    "(only with unusable content); candidate files and nested directories under odd names (blanks, Cyrillic, Latin-1 bytes that are not UTF-8, a "
    "leading dot, 170 characters); in a quarter of the cases the user's file for the exact identifier is called like the factory default file "
    "(a name decides nothing, the identifier inside does); valid configs of other devices; one of the four directories missing in 1/5 of the cases. Oracle: no panic; "
    "all directories present -> no error and FindConfig returns the file the precedence list names (checked by tag, type and - whatever its spelling - file name) or an "
    "error when none applies; unsupported types -> UnsupportedDeviceType; missing directory -> an error or that directory treated as empty. "
    "In 2/5 of the cases every candidate is saved again in place (same length; the served one possibly invalid now) and everything is loaded "
    "again - the second versions dated now, like the first, a day before the first, or following first versions dated into the future. "
    "Non-trivial = noise present or a directory missing; distinct by case hash.",
    [
        dict(test="TestC12", shards=16, checks_quick=1200, checks_thorough=12000),
        dict(test="TestC12Matrix", shards=16, replayable=False),
    ],
    exhaustive=True,
    level_text="Exhaustive presence matrix plus generated trees with noise, against a direct statement of the precedence list.",
    level_note="Trusted: the fixture builder; real files on the sandbox file system. Unreadable (permission-denied) directories cannot be built as root.",
    technique="property-based testing (rapid) over generated file trees + exhaustive presence matrix vs precedence model",
)

prop(
    "C19", "exploration",
    "A temporary tree with the four directories and pre-created files (a.toml, device.toml, notes.txt, a.toml.bak, a.toml~, mytoml, x.tom, toml, "
    "atoml, README, hidden / blank-containing / multi-dot / Cyrillic / Latin-1 names, files in sub-directories incl. hidden, blank-containing, "
    "non-UTF-8 and file-like (backup.toml/) directory names); 1-8 operations: a single in-place write (open without truncation, one write(2)), a burst of 1-20 writes across "
    "directories/files, a series of 64-4096 (+-2) modifications alternating between two .toml files while the consumer is busy, a flood beyond "
    "the kernel's event queue, a nested directory removed and created again under the same path with a write to a file in it, or a pause; the consumer reads promptly or 1-200 ms late; then cancel while idle, with a notification pending unread, or "
    "in the middle of a burst. Count-based oracle that is sound under any timing: total notifications <= in-place writes to *.toml files "
    "(so a notification for any other file is an excess), after every write/burst that touched a .toml file at least one further "
    "notification arrives within 10 s, the stream does not end before cancel, and after cancel a consumer that keeps receiving sees it end "
    "within 10 s. The first modification in every directory, made the moment the call has returned, counts like any other (no warm-up); "
    "files in sub-directories (which the loader reads) are written to as well. TestC19Manager runs the application's Manager.Run "
    "itself (package main, in-package test; a private /dev with an empty /dev/input) in a generated hidi-config tree: after every in-place write to "
    "a .toml file the manager loads the device configurations again within 10 s, loads <= 1 + writes to .toml files, and Run returns within 10 s "
    "of cancellation. Non-trivial = the case contains a TOML write.",
    [dict(test="TestC19", shards=16, checks_quick=20, checks_thorough=400, shrinktime="5s", gomaxprocs=4),
     dict(test="TestC19Manager", bin="hidi", wrap="devns", shards=16, checks_quick=6, checks_thorough=120, shrinktime="5s", gomaxprocs=4)],
    level_text="Generated write/cancel schedules against a count-based oracle; 'eventually' is checked as 'within 10 s'.",
    level_note="Trusted: inotify on the sandbox file system queues one IN_MODIFY per write(2); kernel and goroutine timing are sampled, not controlled. "
               "Every warm-up write beyond one per directory weakens the upper bound by one (reported in the class histogram).",
    technique="property-based testing (rapid) of write/cancel schedules with a timing-independent counting oracle",
)


prop(
    "C20", "exploration",
    "1-10 synthetic handlers (input.DeviceInfo without an openable node): capability lists drawn from the 13 signature sets of the capability "
    "tables (both standard-keyboard signatures, NKRO, mouse, system, multimedia, joystick-like with ABS and/or FF, others), optionally with one "
    "type added or dropped, or as random subsets of the 12 EV_* types; list order permuted, duplicates injected; physical location from a pool "
    "of 1-4 strings incl. \"\"; identifiers equal within a location in 80%, bus from the kernel's bus types (PCI, USB, Bluetooth, virtual, i8042, ...) "
    "and the corners, version / uniq / sysfs varying (none of them is the location). Each case is normalised in the identity order, reversed and 5 random "
    "orders (TestC20AllOrders: ALL orders of up to 6 handlers). Oracle: every handler in exactly one device; devices == distinct locations and "
    "every handler sits in the device of its own location; device type = Joystick if any handler is joystick-like, else Keyboard if any is a "
    "standard keyboard, else neither; the order-free summary (location, type, handler multiset, identifier when the group agrees) is the same "
    "for every order; HandlerType is invariant under permutation/duplication of the capability list. Non-trivial = >= 2 groups, one with "
    ">= 2 handlers of different classes.",
    [
        dict(test="TestC20", shards=16, checks_quick=8000, checks_thorough=150000),
        dict(test="TestC20AllOrders", shards=16, checks_quick=400, checks_thorough=6000),
        dict(test="FuzzC20", fuzz=True, tiers=["thorough"], fuzztime="120s", shards=1, replay_test="TestC20", timeout_thorough=900),
    ],
    level_text="Generated multisets of handlers with permutation metamorphic relation (all orders for n <= 6) and partition/type invariants.",
    level_note="Trusted: the two handler classes the property names are decided by a set-based transcription of the capability tables (c20Class); "
               "evdev nodes cannot be opened in the sandbox, so name/AbsInfo collection inside Normalize is not exercised.",
    technique="metamorphic property-based testing (rapid): permutation invariance + partition invariants",
)


prop(
    "C15", "exploration",
    "The real pipeline assembled as in cmd/hidi (fake driver.Port -> midi.ProcessMidiEvents -> utils.DynamicFanOut -> consumers; emitters -> "
    "ProcessMidiEvents -> fake port), channel capacities 0-8 each, 1-4 concurrent emitters of 0-300 tagged messages, 0-400 numbered input "
    "messages, GOMAXPROCS in {1,2,4,16}, and a generated script of up to 14 harness-owned actions over 4 consumers: attach (plain reader, or a "
    "real device.Device whose ProcessEvents is ended before it is detached - the manager's pattern), stop reading, resume, detach (after "
    "0-8 ms of traffic piling up), let n more messages start; 1/4 of the cases feed the fan-out directly. Between the numbered input messages "
    "travel messages of every other legal shape (real-time bytes incl. system reset, a SysEx whole and in pieces, program change, pressure, "
    "controller, bend, song position / select, tune request), which must arrive piece by piece between the same neighbours. Oracles: output port = per-emitter "
    "exact order, exactly once, byte-for-byte; every consumer's sequence numbers strictly increasing and contiguous up to the last message "
    "owed to it, containing every message whose send began after its SpawnOutput returned up to the one before the newest message any consumer "
    "had seen when DespawnOutput was called (the whole stream for consumers kept to the end); DespawnOutput always returns - the negative "
    "verdict is a stable blocked state in two goroutine dumps 1 s apart (delivery goroutine parked in chan send, caller parked on the mutex), "
    "not a bare time-out; channels closed after removal. Non-trivial = >= 2 emitters with >= 1 consumer, or a detach of a consumer that had "
    "stopped reading; distinct by case hash. The port collector reads until the transport is stopped, so messages nobody emitted and late "
    "duplicates are seen too. Long-lived part: the same cases with traffic, a pause of 5.2-7 s (quick; 5-65 s thorough) and traffic again, "
    "for anything the transport does on a timer.",
    [dict(test="TestC15", shards=16, checks_quick=500, checks_thorough=6000, shrinktime="10s", gomaxprocs=16, timeout_quick=600),
     dict(test="TestC15LongLived", shards_quick=4, shards_thorough=16, checks_quick=2, checks_thorough=6, shrinktime="15s", gomaxprocs=16, timeout_quick=600)],
    level_text="Generated schedules of harness-owned actions against sequence-number oracles; interleavings inside the units' own goroutines "
               "are sampled by the Go scheduler under several GOMAXPROCS values, not enumerated.",
    level_note="Trusted: the harness consumers/feeder; cmd/hidi/manager.go itself needs evdev nodes and is represented by the same library calls "
               "in the same order (SpawnOutput -> NewDevice -> ProcessEvents -> DespawnOutput). A lost wake-up needing one exact interleaving could be missed.",
    technique="stateful property-based testing (rapid) of attach/detach/stall schedules with sequence-number and blocked-state oracles",
)


prop(
    "C18", "fault_enumeration",
    "updateHIDIConfiguration() of package main (in-package test injected with -overlay; ALSA driver swapped for a stub) run in a fresh working "
    "directory per case. State of hidi-config: absent (first start), or present with every built-in factory file independently intact / absent / "
    "truncated at a generated byte (a third of the cuts on or next to a multiple of 512 / 1024 / 4096 / 8192, or at the very ends) / modified "
    "(shorter, same length, longer, padded to whole blocks), factory directories absent, 0-7 arbitrary files below user/ "
    "(incl. names that mirror factory names, nested dirs), entries of the wrong kind at factory paths (links to a file / a directory / themselves / "
    "through a file / nowhere, a directory, a named pipe or a unix socket where a file belongs, a file where a directory belongs), hidi.toml and the blacklist present with arbitrary bytes or absent, extra files. "
    "Crash states are built by construction from the deterministic walk order: an interrupted FIRST run (walk entries before k exist, entry k "
    "cut at byte b, nothing after) and an interrupted UPDATE run over a generated state (factory files before k restored, file k truncated to b "
    "bytes, the rest as generated). 0-2 reruns. Oracle: no error; every built-in factory file present and byte-identical to its embedded "
    "template (and the embedded templates equal cmd/hidi/hidi-config in the source tree: TestC18Templates); every pre-existing file below user/, "
    "hidi.toml, the blacklist and extra files byte-identical (hash+size+path set), no file appears below user/ (an empty directory may); blacklist created from its "
    "template iff missing; absent directory -> exactly the full template tree; a rerun leaves the tree snapshot unchanged. "
    "1/4 of the states have backup / temporary entries next to factory files (<file>.tmp, <file>~, .<file>.swp, ... as files or directories). "
    "TestC18Kill interrupts REAL runs instead of constructing their state: a child process runs the upkeep under strace fault injection "
    "(SIGKILL in place of its N-th file-changing syscall, N generated), then upkeep runs again and owes the factory files and the protected "
    "files of the state before the interrupted run, and a third run changes nothing. "
    "Non-trivial = a truncated or longer factory file together with user files, or a crash state (constructed or real); distinct by case hash.",
    [
        dict(test="TestC18", bin="hidi", shards=16, checks_quick=1200, checks_thorough=12000),
        dict(test="TestC18Kill", bin="hidi", shards=16, checks_quick=40, checks_thorough=1200, shrinktime="20s"),
        dict(test="TestC18Templates", bin="hidi", shards=1, replayable=False),
    ],
    level_text="Generated directory states incl. constructed crash states (interruption after any entry of the deterministic walk, at a generated "
               "byte), tree-diff oracle against the embedded templates.",
    level_note="Trusted: real files on the sandbox file system; the constructed crash model is 'files written so far are complete, the current one is a prefix' "
               "(no torn directory entries, no reordering of writes across files); the real interruptions (TestC18Kill) stop the process at a syscall "
               "boundary (no torn single write) and need strace/ptrace, without which that part counts its cases as skipped.",
    technique="property-based testing (rapid) over generated directory states + constructed crash states + fault injection (process killed at a generated syscall of a real run), tree-diff oracle, idempotence",
    engine="hidi-inpackage",
)


_LED_NOTE = ("Trusted: the fake OpenRGB server in orgb.go (the protocol subset of realbucksavage/openrgb-go), the sysfs fixture bind-mounted over "
             "/sys/class/hidraw in a private mount namespace (unshare -m), the overlay hook that sets the handler's event name, EV_SYN / CC fences. "
             "LED refresh timing is the real one (10 ms cycle); an observation evaluates the newest frame once at least 3 frames have arrived after the fence - or, for a loop that sends a frame only "
             "when the picture changes, the frame that stands 60 ms after the fence and still stands 40 ms later - "
             "and keeps polling for 3 s before it reports a persistent mismatch.")

prop(
    "C17", "exploration",
    "The REAL LED loop (handleOpenrgb) of one device per case against a fake OpenRGB server. Layout: the LEDs of ~80% of the keys in use plus 0-8 "
    "other named keys, 0-3 unnamed extras and (1/3 of the cases) 1-5 LEDs that real controllers list and HIDI has no key for (ISO variants, media "
    "keys, light bars, near-miss spellings) in random order (generic controller, or the HyperX name with/without its 18 strip LEDs); description "
    "with 1-3 mappings (never named Control), 2-10 note keys, 70% of the octave/semitone/channel/mapping/panic/multinote keys, seven "
    "pairwise distant colours, non-zero default transposition/channel in some cases. 3-24 steps: note key press/release, action taps "
    "(any transposition, a quarter of the worlds start far out), MIDI-in Note On / Note Off / Note On with velocity 0 on the current or another channel (a sounding pitch may be struck "
    "again 1-3 times before its one release; 80% aimed at a "
    "mapped key's current pitch; 1/6 of them preceded by some other legal message: controller, bend, real-time byte, SysEx ...), "
    "mapped key's current pitch), panic, and observations. Oracle at each observation: reference frame function over the LEDs the property "
    "speaks about - note-key LEDs: unavailable colour when out of range, else pitch-class colour (+-2 per component), or one of the applicable "
    "highlight colours (active / external on current channel / that channel's colour) when the pitch sounds; octave, semitone, mapping and "
    "channel key LEDs: role colours are LEARNED per value class on first sight, must stay consistent and must differ between the classes the "
    "property distinguishes (0 / 1 / more; at-end / free; channel k / k'), channel colours cross-checked between channel keys and other-channel "
    "highlights; after disconnect the last frame is all red. Non-trivial = observation with a held key and an external note on another channel "
    "under a non-zero transposition, or a layout lacking the LED of an action key.",
    [dict(test="TestC17", wrap="mountns", shards=16, checks_quick=24, checks_thorough=400, shrinktime="20s", gomaxprocs=4, timeout_quick=900)],
    level_text="Generated layouts/states against a reference frame function, on the real refresh loop over TCP.",
    level_note=_LED_NOTE,
    technique="stateful property-based testing (rapid) of the real LED loop vs reference frame function with learned role colours",
)


prop(
    "C16", "exploration",
    "1-4 real devices processed concurrently in a binary built with -race: each with the real LED loop connected to one fake OpenRGB server "
    "(own controller / hidraw node), MIDI-in from one real DynamicFanOut fed with 0-12 cycling messages (Note On / Off; a third of them any other legal message: controllers, "
    "bend, program change, pressure, all real-time bytes incl. system reset, song position, SysEx), one shared DeviceConfig value; half of the devices with logging on "
    "(into a drained tap), exit sequences that a history may complete (the signal goes to a handler of the harness); per "
    "device a key history of 0-30 events (C17-style descriptions and layouts) that ends with a note key held in 80% of the cases, and the "
    "moment its event stream ends drawn from: before the LED loop connects (0-200 ms), during controller discovery (260-490 ms), after the "
    "first frame with the history played back to back / with 0-6 ms pauses (between frames) / followed by a 0-40 ms wait, always while MIDI-in "
    "traffic flows; then the manager's DespawnOutput. Oracles: (1) no data-race report whose stack is in HIDI code (race log parsed after every "
    "case); (2) ProcessEvents returns within 3 s of the end of its stream (15 s guard with goroutine dump); (3) within 3 s after all devices "
    "ended no goroutine of the device package is alive; (4) each device's MIDI output equals the output of the same history run alone "
    "(exact sequence; disconnect clean-up compared as a multiset because its order is a map walk); (5) in half of the cases whose server lists no "
    "controller for the devices, device 0 stays connected for 3 s (its LED goroutine has given up and returned by then) and the MIDI input must still "
    "be flowing before its stream ends (progress-based: stalled = not one message taken over by the fan-out in 6 s). TestC16Paused: the timing in which the whole "
    "PROCESS stands still - right after the devices are attached (0-400 ms) the test process stops itself (SIGSTOP; a helper continues it after "
    "5.2-6.5 s, longer than the LED loop's budget for connecting); afterwards the process must be alive, the devices end on the end of their "
    "streams and leave no goroutine. TestC16Stall: a server that stops reading, in a private network namespace with 4 KB TCP buffers. Non-trivial = a device whose stream ended "
    "with a note held after its LED loop had sent >= 1 frame; distinct by case hash.",
    [dict(test="TestC16", bin="race", wrap="mountns", shards=16, checks_quick=12, checks_thorough=200, shrinktime="15s", gomaxprocs=4, timeout_quick=900),
     dict(test="TestC16Paused", wrap="mountns", shards_quick=8, shards_thorough=16, checks_quick=1, checks_thorough=8, shrinktime="1s", gomaxprocs=4, timeout_quick=900),
     dict(test="TestC16Stall", wrap="mountnetns", shards_quick=4, shards_thorough=16, checks_quick=2, checks_thorough=12, shrinktime="30s", gomaxprocs=4, timeout_quick=900)],
    level_text="Generated concurrent schedules under the Go race detector (happens-before based: an unsynchronised access pair is reported "
               "without having to hit the timing window), with termination, leak and solo-vs-concurrent differential oracles.",
    level_note=_LED_NOTE + " Schedules are sampled; a failure of this check cannot be shrunk reliably (the race detector reports each race once per "
               "process), the replay file is the generated case plus the report.",
    technique="property-based generation of concurrent schedules (rapid) under the race detector + differential (solo vs concurrent) oracle",
)


# Properties not (yet) claimed. Kept current by hand; every id of properties.jsonl is either in PROPS or here.
_PENDING = "check not built yet in this round; planned as property-based test per DESIGN.md"
NOT_APPLICABLE = [{"property_id": "C%02d" % i, "reason": _PENDING} for i in range(1, 21) if "C%02d" % i not in PROPS]
