//go:build verif

package main

// C19, end to end through the manager (cmd/hidi/manager.go): "a change notification is delivered so the devices are
// reloaded ... when the application shuts down the watcher stops". Manager.Run is run as it is, in a working directory
// holding a hidi-config tree, with a private /dev/input that is empty (the sandbox has no input devices; the driver starts
// the test inside `unshare -m` with a tmpfs over /dev). What the manager does on a change is visible in its log: it loads the
// device configurations again ("Loaded factory Keyboard Configs: N"). Count-based oracle, sound under any timing:
//   - after every in-place write to a .toml file the configurations are loaded again within 10 s;
//   - loads <= 1 + number of in-place writes to .toml files (a write to any other file causes none);
//   - after cancellation Run returns within 10 s.

import (
	"context"
	"encoding/json"
	"fmt"
	"os"
	"path/filepath"
	"strings"
	"sync"
	"sync/atomic"
	"testing"
	"time"

	"github.com/gethiox/HIDI/internal/pkg/midi"
	"github.com/gethiox/HIDI/internal/pkg/midi/device"
	harness "github.com/gethiox/HIDI/verifharness"
	"pgregory.net/rapid"
)

type c19mOp struct {
	Dir  int    `json:"dir"`
	File string `json:"file"`
	N    int    `json:"n"` // writes in a row (1 = a single write)
}

type C19MgrCase struct {
	Ops []c19mOp `json:"ops"`
}

var c19mDirs = []string{"hidi-config/user/keyboard", "hidi-config/user/gamepad", "hidi-config/factory/keyboard", "hidi-config/factory/gamepad"}
var c19mFiles = []string{"a.toml", "0_default.toml", "notes.txt", "a.toml.bak", ".pad.toml", "mytoml", "README", "mine/b.toml", ".mine/c.toml"}

func checkC19Mgr(c C19MgrCase) (nontrivial bool, v *harness.Violation) {
	if st, err := os.Stat("/dev/input"); err != nil || !st.IsDir() {
		harness.Classify("no /dev/input in this environment: part skipped")
		return false, nil
	}
	known := map[string]bool{}
	for _, f := range c19mFiles {
		known[f] = true
	}
	for _, op := range c.Ops {
		if !known[op.File] || op.N < 1 { // (corpus cases of the other C19 part land here too)
			return false, nil
		}
	}
	root, err := os.MkdirTemp(".", "c19m-")
	if err != nil {
		return false, harness.NewViolation("C19", "harness", "", "mkdtemp: %v", err)
	}
	root, _ = filepath.Abs(root)
	defer os.RemoveAll(root)
	var loads int64
	harness.SetLogTap(func(m []byte) {
		var rec struct {
			Msg string `json:"msg"`
		}
		if json.Unmarshal(m, &rec) != nil {
			return
		}
		if strings.HasPrefix(rec.Msg, "Loaded factory Keyboard Configs: ") {
			atomic.AddInt64(&loads, 1)
		}
	})
	defer harness.SetLogTap(nil)
	herr := harness.InDir(root, func() {
		// the template tree (what a first start creates), plus the files the case writes to
		if err := updateHIDIConfiguration(); err != nil {
			v = harness.NewViolation("C19", "harness", "", "cannot create the configuration tree: %v", err)
			return
		}
		valid, _ := os.ReadFile("hidi-config/factory/keyboard/0_default.toml")
		for _, d := range c19mDirs {
			for _, f := range c19mFiles {
				p := filepath.Join(d, f)
				if _, err := os.Stat(p); err == nil {
					continue
				}
				_ = os.MkdirAll(filepath.Dir(p), 0o755)
				data := []byte("# some text\n# padding padding\n")
				if strings.HasSuffix(f, ".toml") {
					data = append([]byte("# 000000\n"), valid...)
					data = []byte(strings.Replace(string(data), "bus = 0x00", fmt.Sprintf("bus = 0x%02x", 0x40+len(f)), 1))
				}
				if err := os.WriteFile(p, data, 0o644); err != nil {
					v = harness.NewViolation("C19", "harness", "", "create: %v", err)
					return
				}
			}
		}
		ctx, cancel := context.WithCancel(context.Background())
		defer cancel()
		midiOut, midiIn := make(chan midi.Event, 8), make(chan midi.Event, 8)
		devices := make(map[*device.Device]*device.Device)
		var mu sync.Mutex
		cfg := ManagerConfig{HIDI: HIDIConfig{HIDI: HIDI{EVThrottling: time.Millisecond, DiscoveryRate: 50 * time.Millisecond, StabilizationPeriod: 20 * time.Millisecond}}, NoLogs: true}
		m := NewManager(cfg, midiOut, midiIn, &mu, devices, make(chan os.Signal, 8))
		done := make(chan struct{})
		go func() {
			defer close(done)
			m.Run(ctx)
		}()
		waitLoads := func(atLeast int64, d time.Duration) bool {
			deadline := time.Now().Add(d)
			for time.Now().Before(deadline) {
				if atomic.LoadInt64(&loads) >= atLeast {
					return true
				}
				time.Sleep(5 * time.Millisecond)
			}
			return atomic.LoadInt64(&loads) >= atLeast
		}
		if !waitLoads(1, 15*time.Second) {
			v = harness.NewViolation("C19", "manager-never-loaded", "", "Manager.Run did not load the device configurations within 15 s")
			return
		}
		time.Sleep(120 * time.Millisecond) // the watches are added asynchronously
		tomlWrites := int64(0)
		seq := 0
		write := func(p string) error {
			seq++
			f, err := os.OpenFile(p, os.O_WRONLY, 0)
			if err != nil {
				return err
			}
			_, err = f.WriteAt([]byte(fmt.Sprintf("# %06d\n", seq)), 0)
			f.Close()
			return err
		}
		for i, op := range c.Ops {
			before := atomic.LoadInt64(&loads)
			p := filepath.Join(c19mDirs[op.Dir%4], op.File)
			for k := 0; k < op.N; k++ {
				if err := write(p); err != nil {
					v = harness.NewViolation("C19", "harness", "", "write: %v", err)
					return
				}
				if strings.HasSuffix(op.File, ".toml") {
					tomlWrites++
				}
			}
			if strings.HasSuffix(op.File, ".toml") {
				nontrivial = true
				if !waitLoads(before+1, 10*time.Second) {
					v = harness.NewViolation("C19", "manager-no-reload", "", "op %d: %d in-place write(s) to %s, and the manager did not load the device configurations again within 10 s (loads so far: %d)", i, op.N, p, before)
					return
				}
			} else {
				time.Sleep(60 * time.Millisecond)
			}
			time.Sleep(80 * time.Millisecond)
			if got := atomic.LoadInt64(&loads); got > 1+tomlWrites {
				v = harness.NewViolation("C19", "manager-spurious-reload", "", "after op %d (%s x%d): the configurations were loaded %d times, but only %d in-place writes to .toml files were made (plus the first load)", i, p, op.N, got, tomlWrites)
				return
			}
		}
		cancel()
		select {
		case <-done:
		case <-time.After(10 * time.Second):
			v = harness.NewViolation("C19", "manager-does-not-stop", "", "Manager.Run had not returned 10 s after the context was cancelled")
		}
	})
	if herr != nil {
		return false, harness.NewViolation("C19", "harness", "", "chdir: %v", herr)
	}
	harness.Classify("manager cases run")
	return nontrivial, v
}

func genC19Mgr(t *rapid.T) C19MgrCase {
	var c C19MgrCase
	for i := rapid.IntRange(1, 5).Draw(t, "ops"); i > 0; i-- {
		c.Ops = append(c.Ops, c19mOp{Dir: rapid.IntRange(0, 3).Draw(t, "dir"), File: rapid.SampledFrom(c19mFiles).Draw(t, "file"),
			N: rapid.SampledFrom([]int{1, 1, 1, 2, 5}).Draw(t, "n")})
	}
	return c
}

func TestC19Manager(t *testing.T) {
	harness.ReplayOrRapid(t, harness.NewRun(t, "C19"), checkC19Mgr, genC19Mgr)
}
