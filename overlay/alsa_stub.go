// Build plumbing for the in-package cmd/hidi checks: the real file links rtmidi/ALSA through cgo,
// which cannot be built in the sandbox. Nothing a property is anchored in lives in alsa.go.
package alsa

import (
	"errors"

	"github.com/gethiox/HIDI/internal/pkg/midi/driver"
)

func CreatePort(name string) (driver.Port, error) { return driver.Port{}, errors.New("alsa stub") }

func GetPorts() []driver.Port { return nil }

func PickMidiPort(idx int) (driver.Port, error) { return driver.Port{}, errors.New("alsa stub") }
