//go:build verif

package input

// VerifDeviceInfo returns di with the (unexported) event-node name set, so that harness-built
// handlers can be matched by the real LED loop (findController). Pure addition; exists only
// under the build tag "verif" and only when injected with -overlay.
func VerifDeviceInfo(event string, di DeviceInfo) DeviceInfo {
	di.eventName = event
	return di
}
