//go:build verif

package main

import "testing"

// main.init calls flag.Parse(); the testing (and rapid) flags must be registered before that.
// Package-level variable initialisation runs before any init function of the package.
var _ = func() bool { testing.Init(); return true }()
