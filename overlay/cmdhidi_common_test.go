//go:build verif

package main
