//go:build verif

package main

// In-package checks for cmd/hidi, injected with -overlay (never copied into /repo):
//   C18  updateHIDIConfiguration  (start-up upkeep)
//   C09  LoadHIDIConfig           (hidi.toml is read totally: value or error)

import (
	"bytes"
	"crypto/sha256"
	"fmt"
	"io/fs"
	"os"
	"os/exec"
	"path/filepath"
	"runtime"
	"sort"
	"strings"
	"syscall"
	"testing"
	"time"

	harness "github.com/gethiox/HIDI/verifharness"
	"pgregory.net/rapid"
)

func init() {
	// package main has its own logger instance; all of them write to logger.Messages, which the harness drains
}

// ---------------------------------------------------------------- templates

type tmplFile struct {
	Path string
	Data []byte
	Dir  bool
}

// templateWalk lists the embedded tree in fs.WalkDir order (the order upkeep creates things in).
func templateWalk(root string) []tmplFile {
	var out []tmplFile
	_ = fs.WalkDir(templateConfig, root, func(path string, d fs.DirEntry, err error) error {
		if err != nil {
			return err
		}
		if d.IsDir() {
			out = append(out, tmplFile{Path: path, Dir: true})
			return nil
		}
		data, _ := fs.ReadFile(templateConfig, path)
		out = append(out, tmplFile{Path: path, Data: data})
		return nil
	})
	return out
}

var allTemplates = templateWalk("hidi-config")
var factoryTemplates = templateWalk("hidi-config/factory")

func factoryFiles() []tmplFile {
	var out []tmplFile
	for _, f := range factoryTemplates {
		if !f.Dir {
			out = append(out, f)
		}
	}
	return out
}

// ---------------------------------------------------------------- C18

type c18File struct {
	Path string `json:"path"`
	Data []byte `json:"data"`
}

type C18Case struct {
	DirExists   bool              `json:"dir_exists"`
	Factory     map[string]string `json:"factory"`     // template path -> intact | absent | trunc:<n> | shorter | same | longer
	AbsentDirs  []string          `json:"absent_dirs"` // of hidi-config/factory, .../gamepad, .../keyboard
	User        []c18File         `json:"user"`        // arbitrary files below hidi-config/user
	HidiToml    *[]byte           `json:"hidi_toml"`   // nil: absent
	Blacklist   *[]byte           `json:"blacklist"`   // nil: absent
	Extra       []c18File         `json:"extra"`       // other files in hidi-config (not below factory/ or user/)
	Reruns      int               `json:"reruns"`
	CrashKind   string            `json:"crash_kind"`    // "" | "create" | "update": the state left by an interrupted earlier run
	CrashAfter  int               `json:"crash_after"`   // index into the walk: entries before it are complete
	CrashAtByte int               `json:"crash_at_byte"` // the entry at CrashAfter is a file cut at this byte (if it is a file)
	// CrashRemoved: (update crash) the entry at CrashAfter had been removed and not yet created again when the run stopped
	CrashRemoved bool `json:"crash_removed,omitempty"`
	// Links: a user file that shares its data with a factory file: "hard" = the user file is a hard link of the factory file
	// (the user "copied" it with cp -l / ln and then edited it in place, which makes the factory file count as modified),
	// "sym" = the factory path is a symbolic link to the user file
	Links []c18Link `json:"links,omitempty"`
	// Siblings: entries next to factory files whose names derive from theirs (editor backups, leftovers of an interrupted
	// save or of an interrupted earlier upkeep run, whatever way that run writes its files): "<file>.tmp", "<file>~",
	// ".<file>.swp", ... as a file or as a directory. They are "extra files": nothing is owed to them, the factory clauses
	// and the protected files are owed as always.
	Siblings []c18Sibling `json:"siblings,omitempty"`
	// BlacklistLink: (no blacklist file) the blacklist path is a symbolic link to a file in the user's tree that does not exist
	BlacklistLink bool `json:"blacklist_link,omitempty"`
}

type c18Sibling struct {
	Path string `json:"path"`
	Dir  bool   `json:"dir,omitempty"`
	Data []byte `json:"data,omitempty"`
}

type c18Link struct {
	Kind    string `json:"kind"`
	Factory string `json:"factory"`
	User    string `json:"user"`
	Data    []byte `json:"data"`
}

func snapshot(root string) map[string]string {
	out := map[string]string{}
	_ = filepath.Walk(root, func(path string, info os.FileInfo, err error) error {
		if err != nil {
			return nil
		}
		rel, _ := filepath.Rel(root, path)
		if info.IsDir() {
			out[rel+"/"] = "dir"
			return nil
		}
		if info.Mode()&(os.ModeNamedPipe|os.ModeSocket|os.ModeDevice) != 0 {
			out[rel] = "special:" + info.Mode().Type().String() // (reading a pipe would block)
			return nil
		}
		data, _ := os.ReadFile(path)
		out[rel] = fmt.Sprintf("%d:%x", len(data), sha256.Sum256(data))
		return nil
	})
	return out
}

func writeFileMk(path string, data []byte) error {
	if err := os.MkdirAll(filepath.Dir(path), 0o777); err != nil {
		return err
	}
	return os.WriteFile(path, data, 0o666)
}

func modified(kind string, tmpl []byte) []byte {
	switch {
	case kind == "shorter":
		out := append([]byte{}, tmpl[:len(tmpl)/2]...)
		if len(out) > 0 {
			out[0] ^= 0x01
		}
		return out
	case kind == "same":
		out := append([]byte{}, tmpl...)
		for i := range out {
			if i%7 == 3 {
				out[i] ^= 0x20
			}
		}
		if len(out) == 0 {
			return []byte("x")
		}
		return out
	case kind == "longer":
		return append(append([]byte{}, tmpl...), []byte("\n# local edit that makes the file longer than its template\n[extra]\nvalue = 1\n")...)
	case strings.HasPrefix(kind, "padto:"):
		// the template followed by blank lines up to a size that is a whole number of blocks
		var n int
		fmt.Sscanf(kind, "padto:%d", &n)
		out := append([]byte{}, tmpl...)
		for len(out)%n != 0 || len(out) == len(tmpl) {
			out = append(out, '\n')
		}
		return out
	case strings.HasPrefix(kind, "trunc:"):
		var n int
		fmt.Sscanf(kind, "trunc:%d", &n)
		if n > len(tmpl) {
			n = len(tmpl)
		}
		return append([]byte{}, tmpl[:n]...)
	}
	return tmpl
}

func buildC18(c *C18Case) error {
	if !c.DirExists && c.CrashKind == "" {
		return nil
	}
	if err := os.MkdirAll("hidi-config", 0o777); err != nil {
		return err
	}
	if c.CrashKind == "create" {
		// an earlier first run was interrupted: entries of the full walk before CrashAfter exist, the next one is cut
		for i, e := range allTemplates {
			if i > c.CrashAfter {
				break
			}
			if e.Dir {
				_ = os.MkdirAll(e.Path, 0o777)
				continue
			}
			data := e.Data
			if i == c.CrashAfter {
				cut := c.CrashAtByte
				if cut > len(data) {
					cut = len(data)
				}
				data = data[:cut]
			}
			if err := writeFileMk(e.Path, data); err != nil {
				return err
			}
		}
		return nil
	}
	absentDir := func(p string) bool {
		for _, d := range c.AbsentDirs {
			if p == d || strings.HasPrefix(p, d+"/") {
				return true
			}
		}
		return false
	}
	for _, e := range factoryTemplates {
		if absentDir(e.Path) {
			continue
		}
		if e.Dir {
			if err := os.MkdirAll(e.Path, 0o777); err != nil {
				return err
			}
			continue
		}
		st := c.Factory[e.Path]
		if st == "absent" {
			continue
		}
		if err := writeFileMk(e.Path, modified(st, e.Data)); err != nil {
			return err
		}
	}
	for _, f := range c.User {
		if err := writeFileMk(f.Path, f.Data); err != nil {
			return err
		}
	}
	for _, f := range c.Extra {
		if err := writeFileMk(f.Path, f.Data); err != nil {
			return err
		}
	}
	if c.HidiToml != nil {
		if err := writeFileMk("hidi-config/hidi.toml", *c.HidiToml); err != nil {
			return err
		}
	}
	if c.Blacklist != nil {
		if err := writeFileMk("hidi-config/device blacklist.txt", *c.Blacklist); err != nil {
			return err
		}
	} else if c.BlacklistLink {
		// the blacklist is a symbolic link whose target (in the user's tree) is gone: it is not "missing", and creating the
		// file through the link would put a new file below user/
		target, _ := filepath.Abs("hidi-config/user/keyboard/my blacklist.txt")
		_ = os.MkdirAll(filepath.Dir(target), 0o777)
		_ = os.MkdirAll("hidi-config", 0o777)
		if err := os.Symlink(target, "hidi-config/device blacklist.txt"); err != nil {
			return err
		}
	}
	for _, l := range c.Links {
		if _, err := os.Lstat(l.Factory); err != nil {
			continue // that factory file is absent in this case
		}
		_ = os.MkdirAll(filepath.Dir(l.User), 0o777)
		_ = os.Remove(l.User)
		switch l.Kind {
		case "hard":
			if err := os.Link(l.Factory, l.User); err != nil {
				return err
			}
			f, err := os.OpenFile(l.User, os.O_WRONLY|os.O_TRUNC, 0)
			if err != nil {
				return err
			}
			_, err = f.Write(l.Data) // edited in place: same inode
			f.Close()
			if err != nil {
				return err
			}
		case "dir-into-user", "dir-dangling":
			// a factory DIRECTORY is a symbolic link: into the user's tree (where a file of the same name as a factory file is
			// the documented way to override it), or to a target that is gone
			dir := filepath.Dir(l.Factory)
			if filepath.Base(dir) == "factory" {
				continue // (the README directly below factory/: only the two sub-directories are linked)
			}
			userDir := filepath.Join("hidi-config/user", filepath.Base(dir))
			_ = os.MkdirAll(userDir, 0o777)
			if err := os.WriteFile(filepath.Join(userDir, filepath.Base(l.Factory)), l.Data, 0o666); err != nil {
				return err
			}
			_ = os.RemoveAll(dir)
			target, _ := filepath.Abs(userDir)
			if l.Kind == "dir-dangling" {
				target, _ = filepath.Abs("hidi-config/removed-dir")
			}
			if err := os.Symlink(target, dir); err != nil {
				return err
			}
		case "dangling", "dangling-dir":
			// the factory path is a symbolic link whose target does not exist (any more): into an existing directory of the
			// user's tree, or into a directory that is gone as well
			target, _ := filepath.Abs(l.User)
			if l.Kind == "dangling-dir" {
				target, _ = filepath.Abs("hidi-config/user/removed-dir/old.toml")
			}
			_ = os.Remove(l.User)
			_ = os.Remove(l.Factory)
			if err := os.Symlink(target, l.Factory); err != nil {
				return err
			}
		case "to-dir", "self", "through-file":
			// other things a link at a factory path may lead to: a directory, itself, a path that runs through a regular file
			target, _ := filepath.Abs("hidi-config/user/keyboard")
			_ = os.MkdirAll(target, 0o777)
			switch l.Kind {
			case "self":
				target = filepath.Base(l.Factory)
			case "through-file":
				if err := os.WriteFile(l.User, l.Data, 0o666); err != nil {
					return err
				}
				abs, _ := filepath.Abs(l.User)
				target = filepath.Join(abs, "x.toml")
			}
			_ = os.Remove(l.Factory)
			if err := os.Symlink(target, l.Factory); err != nil {
				return err
			}
		case "dir-at-file":
			// something of the wrong kind under a factory name: a directory (with content) where the file belongs ...
			_ = os.Remove(l.Factory)
			if err := os.MkdirAll(filepath.Join(l.Factory, "inner"), 0o777); err != nil {
				return err
			}
			_ = os.WriteFile(filepath.Join(l.Factory, "inner", "x.toml"), l.Data, 0o666)
		case "fifo-at-file":
			// ... a named pipe (opening it would block for ever) ...
			_ = os.Remove(l.Factory)
			if err := syscall.Mkfifo(l.Factory, 0o666); err != nil {
				return err
			}
		case "socket-at-file":
			// ... a unix socket (what a crashed editor plug-in or a mis-typed path of some daemon leaves behind) ...
			_ = os.Remove(l.Factory)
			if err := syscall.Mknod(l.Factory, syscall.S_IFSOCK|0o666, 0); err != nil {
				return err
			}
		case "file-at-dir":
			// ... or a plain file where a factory directory belongs
			dir := filepath.Dir(l.Factory)
			if filepath.Base(dir) == "factory" {
				continue
			}
			_ = os.RemoveAll(dir)
			if err := os.WriteFile(dir, l.Data, 0o666); err != nil {
				return err
			}
		case "sym":
			if err := os.WriteFile(l.User, l.Data, 0o666); err != nil {
				return err
			}
			abs, _ := filepath.Abs(l.User)
			_ = os.Remove(l.Factory)
			if err := os.Symlink(abs, l.Factory); err != nil {
				return err
			}
		}
	}
	for _, sb := range c.Siblings {
		if st, err := os.Stat(filepath.Dir(sb.Path)); err != nil || !st.IsDir() {
			continue // its directory is absent in this case
		}
		if sb.Dir {
			_ = os.Mkdir(sb.Path, 0o777)
		} else {
			_ = os.WriteFile(sb.Path, sb.Data, 0o666)
		}
	}
	if c.CrashKind == "update" {
		// an earlier upkeep run over this very state was interrupted: factory files before CrashAfter are already
		// restored, the one at CrashAfter was opened with truncation and cut at a byte, the rest is as above
		files := factoryFiles()
		for i, e := range files {
			if i > c.CrashAfter {
				break
			}
			data := e.Data
			if i == c.CrashAfter {
				if c.CrashRemoved {
					_ = os.Remove(e.Path)
					continue
				}
				cut := c.CrashAtByte
				if cut > len(data) {
					cut = len(data)
				}
				data = data[:cut]
			}
			if err := writeFileMk(e.Path, data); err != nil {
				return err
			}
		}
	}
	return nil
}

func checkC18(c C18Case) (nontrivial bool, v *harness.Violation) {
	root, err := os.MkdirTemp(".", "c18-")
	if err != nil {
		return false, harness.NewViolation("C18", "harness", "", "mkdtemp: %v", err)
	}
	root, _ = filepath.Abs(root)
	defer os.RemoveAll(root)
	herr := harness.InDir(root, func() {
		if err := buildC18(&c); err != nil {
			v = harness.NewViolation("C18", "harness", "", "cannot build the fixture: %v", err)
			return
		}
		before := snapshot(".")
		existed := len(before) > 1
		v = harness.Guard("C18", "panic", func() *harness.Violation {
			if err := updateHIDIConfiguration(); err != nil {
				return harness.NewViolation("C18", "upkeep-error", "", "updateHIDIConfiguration failed on a state made only of absent/truncated/modified files: %v", err)
			}
			after := snapshot(".")
			// 1. every built-in factory file present and identical to its template
			for _, e := range factoryTemplates {
				if e.Dir {
					if after[e.Path+"/"] != "dir" {
						return harness.NewViolation("C18", "factory-dir-missing", "", "%s does not exist after upkeep", e.Path)
					}
					continue
				}
				want := fmt.Sprintf("%d:%x", len(e.Data), sha256.Sum256(e.Data))
				if got, ok := after[e.Path]; !ok {
					return harness.NewViolation("C18", "factory-file-missing", c.CrashKind, "%s does not exist after upkeep (it was %q before)", e.Path, c.Factory[e.Path])
				} else if got != want {
					data, _ := os.ReadFile(e.Path)
					return harness.NewViolation("C18", "factory-file-differs", c.Factory[e.Path]+c.CrashKind,
						"%s differs from its built-in template after upkeep (state before: %q, crash state: %q): %d bytes on disk, template has %d; common prefix %d bytes",
						e.Path, c.Factory[e.Path], c.CrashKind, len(data), len(e.Data), commonPrefix(data, e.Data))
				}
			}
			if !existed {
				// 4. the complete template tree, nothing else
				for _, e := range allTemplates {
					key := e.Path
					if e.Dir {
						key += "/"
						if after[key] != "dir" {
							return harness.NewViolation("C18", "template-tree-incomplete", "", "first start: directory %s was not created", e.Path)
						}
						continue
					}
					want := fmt.Sprintf("%d:%x", len(e.Data), sha256.Sum256(e.Data))
					if after[key] != want {
						return harness.NewViolation("C18", "template-tree-incomplete", "", "first start: %s missing or different from its template", e.Path)
					}
				}
			} else {
				// 2. user files, hidi.toml and an existing blacklist untouched; nothing appears or disappears below user/
				for p, h := range before {
					protected := strings.HasPrefix(p, "hidi-config/user/") || p == "hidi-config/hidi.toml" || p == "hidi-config/device blacklist.txt"
					for _, x := range c.Extra {
						if p == x.Path {
							protected = true
						}
					}
					if protected && c.CrashKind != "create" && after[p] != h {
						return harness.NewViolation("C18", "protected-file-touched", protectedKind(p), "%s was %s before upkeep and is %s afterwards", p, h, orAbsent(after[p]))
					}
				}
				for p := range after {
					if strings.HasPrefix(p, "hidi-config/user/") {
						// (an empty directory that upkeep makes there - a deleted user/keyboard made again - is no user file)
						if _, ok := before[p]; !ok && after[p] != "dir" {
							return harness.NewViolation("C18", "user-tree-changed", "", "%s appeared below user/ during upkeep", p)
						}
					}
				}
				// 3. blacklist created iff missing
				if _, had := before["hidi-config/device blacklist.txt"]; !had {
					tmpl, _ := fs.ReadFile(templateConfig, "hidi-config/device blacklist.txt")
					want := fmt.Sprintf("%d:%x", len(tmpl), sha256.Sum256(tmpl))
					if after["hidi-config/device blacklist.txt"] != want {
						return harness.NewViolation("C18", "blacklist-not-created", "", "the device blacklist was missing and is %s after upkeep (template: %s)", orAbsent(after["hidi-config/device blacklist.txt"]), want)
					}
				}
				if _, had := before["hidi-config/hidi.toml"]; !had && c.CrashKind == "" {
					if _, now := after["hidi-config/hidi.toml"]; now {
						// creating a missing hidi.toml is not forbidden by the property; nothing asserted
						harness.Classify("hidi.toml created although only the factory files are owed")
					}
				}
			}
			// 5. running it again changes nothing
			for i := 0; i < c.Reruns; i++ {
				if err := updateHIDIConfiguration(); err != nil {
					return harness.NewViolation("C18", "rerun-error", "", "run %d of upkeep failed: %v", i+2, err)
				}
				again := snapshot(".")
				if d := diffSnap(after, again); d != "" {
					return harness.NewViolation("C18", "not-idempotent", "", "run %d of upkeep changed the tree: %s", i+2, d)
				}
			}
			return nil
		})
	})
	if herr != nil {
		return false, harness.NewViolation("C18", "harness", "", "chdir: %v", herr)
	}
	for _, st := range c.Factory {
		if strings.HasPrefix(st, "trunc:") || strings.HasPrefix(st, "padto:") || st == "longer" {
			nontrivial = nontrivial || len(c.User) > 0
		}
	}
	if c.CrashKind != "" {
		nontrivial = true
		harness.Classify("crash state: " + c.CrashKind)
	}
	if len(c.Siblings) > 0 {
		harness.Classify("backup / temporary entries next to factory files")
	}
	if !c.DirExists && c.CrashKind == "" {
		harness.Classify("first start (no directory)")
	}
	return nontrivial, v
}

func protectedKind(p string) string {
	switch {
	case strings.HasPrefix(p, "hidi-config/user/"):
		return "user"
	case strings.HasSuffix(p, "hidi.toml"):
		return "hidi.toml"
	case strings.HasSuffix(p, "blacklist.txt"):
		return "blacklist"
	}
	return "extra"
}

func orAbsent(s string) string {
	if s == "" {
		return "absent"
	}
	return s
}

func commonPrefix(a, b []byte) int {
	n := 0
	for n < len(a) && n < len(b) && a[n] == b[n] {
		n++
	}
	return n
}

func diffSnap(a, b map[string]string) string {
	var keys []string
	for k := range a {
		keys = append(keys, k)
	}
	for k := range b {
		if _, ok := a[k]; !ok {
			keys = append(keys, k)
		}
	}
	sort.Strings(keys)
	for _, k := range keys {
		if a[k] != b[k] {
			return fmt.Sprintf("%s: %s -> %s", k, orAbsent(a[k]), orAbsent(b[k]))
		}
	}
	return ""
}

func genBytes(t *rapid.T, label string) []byte {
	switch rapid.IntRange(0, 3).Draw(t, label+"Kind") {
	case 0:
		return []byte{}
	case 1:
		return []byte("# my own file\nvalue = 1\n")
	case 2:
		return rapid.SliceOfN(rapid.Byte(), 0, 200).Draw(t, label)
	}
	return bytes.Repeat([]byte("0123456789abcdef\n"), rapid.IntRange(1, 600).Draw(t, label+"Len"))
}

func genC18(t *rapid.T) C18Case {
	c := C18Case{Factory: map[string]string{}, DirExists: rapid.IntRange(0, 9).Draw(t, "dirExists") > 0}
	c.Reruns = rapid.IntRange(0, 2).Draw(t, "reruns")
	files := factoryFiles()
	switch rapid.IntRange(0, 9).Draw(t, "crash") {
	case 0:
		c.CrashKind = "create"
		c.CrashAfter = rapid.IntRange(0, len(allTemplates)-1).Draw(t, "crashAfter")
		c.CrashAtByte = rapid.IntRange(0, len(allTemplates[c.CrashAfter].Data)).Draw(t, "crashByte")
		return c
	case 1, 2:
		c.CrashKind = "update"
		c.DirExists = true
		c.CrashAfter = rapid.IntRange(0, len(files)-1).Draw(t, "crashAfter")
		c.CrashAtByte = rapid.IntRange(0, len(files[c.CrashAfter].Data)).Draw(t, "crashByte")
		c.CrashRemoved = rapid.IntRange(0, 3).Draw(t, "crashRemoved") == 0
	}
	if !c.DirExists {
		return c
	}
	for _, f := range files {
		switch k := rapid.IntRange(0, 11).Draw(t, "state"); {
		case k < 4:
			c.Factory[f.Path] = "intact"
		case k < 6:
			c.Factory[f.Path] = "absent"
		case k < 9:
			at := rapid.IntRange(0, len(f.Data)).Draw(t, "truncAt")
			// a third of the cuts falls on or next to a block boundary (what a copy interrupted between two blocks leaves), or at
			// the very ends
			if rapid.IntRange(0, 2).Draw(t, "truncAtBoundary") == 0 {
				var cand []int
				for _, b := range []int{512, 1024, 4096, 8192} {
					for m := b; m <= len(f.Data)+1; m += b {
						cand = append(cand, m-1, m, m+1)
					}
				}
				cand = append(cand, 0, 1, len(f.Data)-1)
				at = rapid.SampledFrom(cand).Draw(t, "truncBoundary")
				if at > len(f.Data) {
					at = len(f.Data)
				}
				if at < 0 {
					at = 0
				}
			}
			c.Factory[f.Path] = fmt.Sprintf("trunc:%d", at)
		case k == 9:
			c.Factory[f.Path] = "shorter"
		case k == 10:
			c.Factory[f.Path] = "same"
		default:
			c.Factory[f.Path] = "longer"
			if rapid.Bool().Draw(t, "padded") {
				c.Factory[f.Path] = fmt.Sprintf("padto:%d", rapid.SampledFrom([]int{512, 4096, 8192}).Draw(t, "padTo"))
			}
		}
	}
	for _, d := range []string{"hidi-config/factory", "hidi-config/factory/gamepad", "hidi-config/factory/keyboard"} {
		if rapid.IntRange(0, 7).Draw(t, "absentDir") == 0 {
			c.AbsentDirs = append(c.AbsentDirs, d)
		}
	}
	userNames := []string{"hidi-config/user/keyboard/mine.toml", "hidi-config/user/gamepad/0_default.toml", "hidi-config/user/README.md",
		"hidi-config/user/keyboard/0_default.toml", "hidi-config/user/notes/deep/x.txt", "hidi-config/user/gamepad/PS4_Controller.toml", "hidi-config/user/factory/gamepad/0_default.toml",
		// names as users and their tools make them: blanks, a legacy 8-bit encoding, hidden files, editor leftovers, a long path
		"hidi-config/user/keyboard/my board.toml", "hidi-config/user/keyboard/Ger\xe4t.toml", "hidi-config/user/gamepad/.hidden.toml", "hidi-config/user/keyboard/0_default.toml~",
		"hidi-config/user/keyboard/0_default.toml.tmp", "hidi-config/user/пульт/конфиг.toml", "hidi-config/user/a/b/c/d/e/f/g/" + strings.Repeat("n", 120) + ".toml"}
	for _, n := range userNames {
		if rapid.IntRange(0, 2).Draw(t, "hasUser") == 0 {
			c.User = append(c.User, c18File{Path: n, Data: genBytes(t, "user")})
		}
	}
	if c.CrashKind == "" && rapid.IntRange(0, 7).Draw(t, "linked") == 0 {
		f := files[rapid.IntRange(0, len(files)-1).Draw(t, "linkedFactory")]
		c.Links = append(c.Links, c18Link{Kind: rapid.SampledFrom([]string{"hard", "hard", "sym", "dangling", "dangling-dir", "dir-into-user", "dir-dangling", "to-dir", "self", "through-file", "dir-at-file", "fifo-at-file", "socket-at-file", "file-at-dir"}).Draw(t, "linkKind"), Factory: f.Path,
			User: "hidi-config/user/keyboard/my_copy.toml", Data: append([]byte("# my own version\n"), genBytes(t, "linkedData")...)})
	}
	if rapid.IntRange(0, 3).Draw(t, "siblings") == 0 {
		for i := rapid.IntRange(1, 3).Draw(t, "nSiblings"); i > 0; i-- {
			f := files[rapid.IntRange(0, len(files)-1).Draw(t, "siblingOf")]
			dir, base := filepath.Dir(f.Path), filepath.Base(f.Path)
			form := rapid.SampledFrom([]string{"%s.tmp", "%s.tmp", "%s~", "%s.bak", "%s.new", "%s.part", ".%s.swp", ".%s.tmp", "%s.lock", "#%s#", "%s.orig"}).Draw(t, "siblingForm")
			sb := c18Sibling{Path: filepath.Join(dir, fmt.Sprintf(form, base)), Dir: rapid.IntRange(0, 5).Draw(t, "siblingDir") == 0}
			if !sb.Dir {
				switch rapid.IntRange(0, 2).Draw(t, "siblingData") {
				case 0:
					sb.Data = append([]byte{}, f.Data[:rapid.IntRange(0, len(f.Data)).Draw(t, "siblingCut")]...) // a cut copy of the template
				case 1:
					sb.Data = genBytes(t, "sibling")
				}
			}
			c.Siblings = append(c.Siblings, sb)
		}
	}
	if rapid.IntRange(0, 3).Draw(t, "hasHidi") > 0 {
		b := genBytes(t, "hidi")
		c.HidiToml = &b
	}
	if rapid.IntRange(0, 2).Draw(t, "hasBlacklist") > 0 {
		b := genBytes(t, "blacklist")
		c.Blacklist = &b
	} else if c.CrashKind == "" && rapid.IntRange(0, 3).Draw(t, "blacklistLink") == 0 {
		c.BlacklistLink = true
	}
	for _, n := range []string{"hidi-config/notes.txt", "hidi-config/backup/factory/keyboard/0_default.toml"} {
		if rapid.IntRange(0, 3).Draw(t, "hasExtra") == 0 {
			c.Extra = append(c.Extra, c18File{Path: n, Data: genBytes(t, "extra")})
		}
	}
	return c
}

func TestC18(t *testing.T) { harness.ReplayOrRapid(t, harness.NewRun(t, "C18"), checkC18, genC18) }

// ---------------------------------------------------------------- C18, interrupted runs for real
//
// TestC18Kill does not construct the state an interrupted run "must" have left (that presumes how the run writes its
// files); it interrupts a real run. The fixture is built, then a CHILD process (this test binary, TestC18Child) runs
// updateHIDIConfiguration() under `strace -f -e inject=<file-changing syscalls>:signal=SIGKILL:when=N`: the N-th such
// syscall of the thread executing the run is never executed, the process dies there - the crash point is whatever the
// code under test was doing, however it does it (in place, via temporary files and rename, ...). Then upkeep runs again,
// in this process, and owes: every factory file present and identical to its template; every protected file that existed
// before the interrupted run byte-identical; nothing new below user/. (A blacklist or hidi.toml that the interrupted run was
// in the middle of creating is not asserted: the statement does not say what becomes of them.) N is drawn by rapid; cases in
// which the child finished before its N-th syscall are counted as such and still checked (complete run + rerun).

type C18KillCase struct {
	C    C18Case `json:"c"`
	Kill int     `json:"kill"` // the child's N-th file-changing syscall is replaced by SIGKILL
}

const c18KillSyscalls = "openat,open,creat,write,pwrite64,writev,rename,renameat,renameat2,unlink,unlinkat,mkdir,mkdirat,rmdir,ftruncate,truncate,link,linkat,symlink,symlinkat,fsync,fdatasync,fchmod,fchmodat,chmod"

func TestC18Child(t *testing.T) {
	dir := os.Getenv("VERIF_C18_CHILD_DIR")
	if dir == "" {
		t.Skip("only meaningful as the child of TestC18Kill")
	}
	runtime.LockOSThread()
	if err := os.Chdir(dir); err != nil {
		os.Exit(3)
	}
	mark := os.Getenv("VERIF_C18_CHILD_MARK")
	_ = os.WriteFile(mark+".started", nil, 0o666)
	err := updateHIDIConfiguration()
	if err != nil {
		_ = os.WriteFile(mark+".error", []byte(err.Error()), 0o666)
	}
	_ = os.WriteFile(mark+".finished", nil, 0o666)
	os.Exit(0)
}

func checkC18Kill(kc C18KillCase) (nontrivial bool, v *harness.Violation) {
	c := kc.C
	strace, err := exec.LookPath("strace")
	if err != nil {
		harness.Classify("strace not available: part skipped")
		return false, nil
	}
	root, err := os.MkdirTemp(".", "c18k-")
	if err != nil {
		return false, harness.NewViolation("C18", "harness", "", "mkdtemp: %v", err)
	}
	root, _ = filepath.Abs(root)
	defer os.RemoveAll(root)
	work := filepath.Join(root, "work")
	_ = os.Mkdir(work, 0o777)
	mark := filepath.Join(root, "mark")
	inFlight := false
	herr := harness.InDir(work, func() {
		if err := buildC18(&c); err != nil {
			v = harness.NewViolation("C18", "harness", "", "cannot build the fixture: %v", err)
			return
		}
		before := snapshot(".")
		existed := len(before) > 1
		exe, _ := os.Executable()
		cmd := exec.Command(strace, "-f", "-qq", "-o", "/dev/null", "-e", "trace="+c18KillSyscalls,
			"-e", fmt.Sprintf("inject=%s:signal=SIGKILL:when=%d", c18KillSyscalls, kc.Kill),
			exe, "-test.run", "^TestC18Child$", "-test.timeout", "60s")
		cmd.Env = append(os.Environ(), "VERIF_C18_CHILD_DIR="+work, "VERIF_C18_CHILD_MARK="+mark, "GOMAXPROCS=1")
		out, _ := cmd.CombinedOutput()
		_, started := os.Stat(mark + ".started")
		_, finished := os.Stat(mark + ".finished")
		if msg, err := os.ReadFile(mark + ".error"); err == nil {
			v = harness.NewViolation("C18", "upkeep-error", "child", "updateHIDIConfiguration failed in the child process: %s", msg)
			return
		}
		switch {
		case started != nil:
			harness.Classify("child killed before the run began")
		case finished != nil:
			harness.Classify("run killed in flight")
			inFlight = true
		default:
			harness.Classify("run finished before its N-th syscall")
		}
		_ = out
		mid := snapshot(".")
		v = harness.Guard("C18", "panic", func() *harness.Violation {
			if err := updateHIDIConfiguration(); err != nil {
				return harness.NewViolation("C18", "upkeep-error", "after-kill", "the run after an interrupted run (killed at its file-changing syscall #%d) failed: %v\nstate left by the interrupted run vs before: %s", kc.Kill, err, diffSnap(before, mid))
			}
			after := snapshot(".")
			for _, e := range factoryTemplates {
				if e.Dir {
					if after[e.Path+"/"] != "dir" {
						return harness.NewViolation("C18", "factory-dir-missing", "after-kill", "%s does not exist after the run that followed an interrupted run (killed at syscall #%d)", e.Path, kc.Kill)
					}
					continue
				}
				want := fmt.Sprintf("%d:%x", len(e.Data), sha256.Sum256(e.Data))
				if got, ok := after[e.Path]; !ok || got != want {
					return harness.NewViolation("C18", "factory-file-not-restored", "after-kill",
						"%s is %s after the run that followed an interrupted run (killed at its file-changing syscall #%d; state before: %q; the interrupted run left it as %s); template: %s",
						e.Path, orAbsent(got), kc.Kill, c.Factory[e.Path], orAbsent(mid[e.Path]), want)
				}
			}
			if existed {
				for p, h := range before {
					protected := strings.HasPrefix(p, "hidi-config/user/") || p == "hidi-config/hidi.toml" || p == "hidi-config/device blacklist.txt"
					if protected && after[p] != h {
						return harness.NewViolation("C18", "protected-file-touched", protectedKind(p)+"/after-kill", "%s was %s before the interrupted run and is %s after the following run (after the interrupted one: %s)", p, h, orAbsent(after[p]), orAbsent(mid[p]))
					}
				}
				for p := range after {
					if strings.HasPrefix(p, "hidi-config/user/") {
						if _, ok := before[p]; !ok && after[p] != "dir" {
							return harness.NewViolation("C18", "user-tree-changed", "after-kill", "%s appeared below user/", p)
						}
					}
				}
			}
			if err := updateHIDIConfiguration(); err != nil {
				return harness.NewViolation("C18", "rerun-error", "after-kill", "a third run failed: %v", err)
			}
			if d := diffSnap(after, snapshot(".")); d != "" {
				return harness.NewViolation("C18", "not-idempotent", "after-kill", "a third run changed the tree: %s", d)
			}
			return nil
		})
	})
	if herr != nil {
		return false, harness.NewViolation("C18", "harness", "", "chdir: %v", herr)
	}
	return inFlight, v
}

func genC18Kill(t *rapid.T) C18KillCase {
	c := genC18(t)
	c.CrashKind, c.Reruns = "", 0
	return C18KillCase{C: c, Kill: rapid.IntRange(10, 70).Draw(t, "kill")}
}

func TestC18Kill(t *testing.T) {
	harness.ReplayOrRapid(t, harness.NewRun(t, "C18"), checkC18Kill, genC18Kill)
}

// TestC18Templates: the built-in templates are the files of cmd/hidi/hidi-config in the source tree.
func TestC18Templates(t *testing.T) {
	r := harness.NewRun(t, "C18")
	defer r.Finish()
	repo := os.Getenv("VERIF_REPO")
	if repo == "" {
		repo = "/repo"
	}
	src := filepath.Join(repo, "cmd/hidi/hidi-config")
	onDisk := map[string][]byte{}
	_ = filepath.Walk(src, func(path string, info os.FileInfo, err error) error {
		if err == nil && !info.IsDir() {
			rel, _ := filepath.Rel(filepath.Join(repo, "cmd/hidi"), path)
			onDisk[rel], _ = os.ReadFile(path)
		}
		return nil
	})
	embedded := map[string][]byte{}
	for _, e := range allTemplates {
		if !e.Dir {
			embedded[e.Path] = e.Data
		}
	}
	type tc struct {
		Path string `json:"path"`
	}
	for p, data := range onDisk {
		var v *harness.Violation
		if e, ok := embedded[p]; !ok {
			v = harness.NewViolation("C18", "template-not-built-in", "", "%s exists in the source tree but is not part of the built-in template tree", p)
		} else if !bytes.Equal(e, data) {
			v = harness.NewViolation("C18", "template-differs", "", "%s: built-in template differs from the source file", p)
		}
		harness.Eval(r, t, tc{p}, true, v)
	}
}

// ---------------------------------------------------------------- C09 (hidi.toml)

type C09HidiCase struct {
	Data []byte `json:"data"`
}

func checkC09Hidi(c C09HidiCase) (bool, *harness.Violation) {
	f, err := os.CreateTemp(".", "hidi-*.toml")
	if err != nil {
		return false, harness.NewViolation("C09", "harness", "", "temp file: %v", err)
	}
	path := f.Name()
	f.Write(c.Data)
	f.Close()
	defer os.Remove(path)
	type result struct {
		v   *harness.Violation
		err error
	}
	done := make(chan result, 1)
	go func() {
		var lerr error
		v := harness.Guard("C09", "panic", func() *harness.Violation {
			_, lerr = LoadHIDIConfig(path)
			return nil
		})
		done <- result{v, lerr}
	}()
	select {
	case r := <-done:
		if r.v != nil {
			r.v.Message = fmt.Sprintf("LoadHIDIConfig panicked on a %d-byte hidi.toml %q\n%s", len(c.Data), clipStr(string(c.Data), 300), r.v.Message)
			return true, r.v
		}
		if r.err == nil {
			harness.Classify("hidi.toml accepted")
		} else {
			harness.Classify("hidi.toml rejected")
		}
		return r.err == nil || bytes.Contains(c.Data, []byte("pool_rate")), nil
	case <-time.After(10 * time.Second):
		return true, harness.NewViolation("C09", "hang", "hidi.toml", "LoadHIDIConfig did not return within 10 s on %q", clipStr(string(c.Data), 300))
	}
}

func clipStr(s string, n int) string {
	if len(s) > n {
		return s[:n] + "…"
	}
	return s
}

var hidiKeys = []string{"pool_rate", "discovery_rate", "stabilization_period", "log_view_rate", "log_buffer_size", "HIDI", "hidi", "extra"}

func genHidiScalar(t *rapid.T) string {
	return rapid.SampledFrom([]string{"0", "1", "120", "-1", "-120", "9223372036854775807", "-9223372036854775808", "0x10", "1_000", "0.5", "1e3", "inf", "nan",
		"true", "\"120\"", "\"\"", "[1, 2]", "[]", "{ a = 1 }", "1979-05-27T07:32:00Z", "07:32:00", "1000000000", "1000000001", "2000000000", "99999999999999999999"}).Draw(t, "scalar")
}

func genC09Hidi(t *rapid.T) C09HidiCase {
	factory, _ := fs.ReadFile(templateConfig, "hidi-config/hidi.toml")
	switch k := rapid.IntRange(0, 9).Draw(t, "source"); {
	case k == 0:
		return C09HidiCase{Data: rapid.SliceOfN(rapid.Byte(), 0, 512).Draw(t, "bytes")}
	case k <= 5:
		var b strings.Builder
		if rapid.IntRange(0, 4).Draw(t, "header") > 0 {
			b.WriteString(rapid.SampledFrom([]string{"[HIDI]", "[hidi]", "[[HIDI]]", "[HIDI.pool_rate]", "[other]"}).Draw(t, "hdr") + "\n")
		}
		n := rapid.IntRange(0, 8).Draw(t, "lines")
		for i := 0; i < n; i++ {
			key := rapid.SampledFrom(hidiKeys).Draw(t, "key")
			if rapid.IntRange(0, 5).Draw(t, "dotted") == 0 {
				key = "HIDI." + key
			}
			fmt.Fprintf(&b, "%s = %s\n", key, genHidiScalar(t))
			if rapid.IntRange(0, 7).Draw(t, "midHeader") == 0 {
				b.WriteString("[HIDI]\n")
			}
		}
		return C09HidiCase{Data: []byte(b.String())}
	default: // the factory hidi.toml with mutations
		lines := strings.Split(string(factory), "\n")
		for m := rapid.IntRange(1, 3).Draw(t, "mutations"); m > 0 && len(lines) > 0; m-- {
			pos := rapid.IntRange(0, len(lines)-1).Draw(t, "line")
			switch rapid.IntRange(0, 4).Draw(t, "mutation") {
			case 0:
				lines = append(lines[:pos], lines[pos+1:]...)
			case 1:
				lines = append(lines[:pos+1], lines[pos:]...)
			case 2:
				if j := strings.Index(lines[pos], "="); j >= 0 {
					lines[pos] = lines[pos][:j+1] + " " + genHidiScalar(t)
				}
			case 3:
				joined := strings.Join(lines, "\n")
				lines = strings.Split(joined[:rapid.IntRange(0, len(joined)).Draw(t, "cut")], "\n")
			case 4:
				if len(lines[pos]) > 0 {
					bs := []byte(lines[pos])
					bs[rapid.IntRange(0, len(bs)-1).Draw(t, "bytePos")] = rapid.Byte().Draw(t, "byte")
					lines[pos] = string(bs)
				}
			}
		}
		return C09HidiCase{Data: []byte(strings.Join(lines, "\n"))}
	}
}

func TestC09Hidi(t *testing.T) {
	harness.ReplayOrRapid(t, harness.NewRun(t, "C09"), checkC09Hidi, genC09Hidi)
}

func (c C18Case) Sample() interface{} {
	out := map[string]interface{}{"directory exists": c.DirExists, "reruns": c.Reruns}
	if c.CrashKind != "" {
		out["crash state"] = fmt.Sprintf("interrupted %s run: walk entries before #%d complete, entry #%d cut at byte %d", c.CrashKind, c.CrashAfter, c.CrashAfter, c.CrashAtByte)
	}
	var keys []string
	for k := range c.Factory {
		keys = append(keys, k)
	}
	sort.Strings(keys)
	var fs []string
	for _, k := range keys {
		if c.Factory[k] != "intact" {
			fs = append(fs, strings.TrimPrefix(k, "hidi-config/factory/")+"="+c.Factory[k])
		}
	}
	out["factory files not intact"] = fs
	out["absent factory dirs"] = c.AbsentDirs
	var us []string
	for _, u := range c.User {
		us = append(us, fmt.Sprintf("%s(%dB)", strings.TrimPrefix(u.Path, "hidi-config/"), len(u.Data)))
	}
	out["user files"] = us
	out["hidi.toml present"] = c.HidiToml != nil
	out["blacklist present"] = c.Blacklist != nil
	return out
}

func (c C09HidiCase) Sample() interface{} {
	return map[string]interface{}{"hidi.toml bytes": len(c.Data), "content": clipStr(fmt.Sprintf("%q", string(c.Data)), 400)}
}
