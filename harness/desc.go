package harness

import (
	"fmt"
	"sort"
	"strconv"
	"strings"

	"github.com/holoplot/go-evdev"
)

// ---- structured description of a device configuration (DESIGN.md §3.1) ----

type KeyDef struct {
	Sub  string `json:"sub"`
	Code uint16 `json:"code"`
	Note int    `json:"note"`
	Off  int    `json:"off"`
	// verbatim overrides (invalidation generator): key name and the whole value text
	RawName  string  `json:"raw_name,omitempty"`
	RawValue *string `json:"raw_value,omitempty"`
}

type AxisDef struct {
	Sub       string   `json:"sub"`
	Code      uint16   `json:"code"`
	Type      string   `json:"type"` // cc | pitch_bend | key | action
	CC        *int     `json:"cc,omitempty"`
	CCNeg     *int     `json:"cc_neg,omitempty"`
	Note      *int     `json:"note,omitempty"`
	NoteNeg   *int     `json:"note_neg,omitempty"`
	Off       *int     `json:"off,omitempty"`
	OffNeg    *int     `json:"off_neg,omitempty"`
	Action    *string  `json:"action,omitempty"`
	ActionNeg *string  `json:"action_neg,omitempty"`
	Flip      *bool    `json:"flip,omitempty"`
	Center    *bool    `json:"center,omitempty"`
	Deadzone  *float64 `json:"deadzone,omitempty"` // entry in the sub-handler's deadzones table
	Min       int32    `json:"min"`                // evdev AbsInfo of the axis (engine only)
	Max       int32    `json:"max"`
	RawName   string   `json:"raw_name,omitempty"`    // verbatim axis name
	RawDZName string   `json:"raw_dz_name,omitempty"` // verbatim name in the deadzones table
	Extra     string   `json:"extra,omitempty"`       // verbatim extra inline field, e.g. `bogus = 1`
}

type AnalogSub struct {
	Sub     string   `json:"sub"`
	Default *float64 `json:"default,omitempty"` // default_deadzone; nil = absent
}

type MappingDef struct {
	Name       string      `json:"name"`
	KeySubs    []string    `json:"key_subs"` // order of [[mapping.keys]] tables
	Keys       []KeyDef    `json:"keys"`
	AnalogSubs []AnalogSub `json:"analog_subs"` // order of [[mapping.analog]] tables
	Axes       []AxisDef   `json:"axes"`
}

type ActionDef struct {
	Code    uint16 `json:"code"`
	Action  string `json:"action"`
	RawName string `json:"raw_name,omitempty"`
}

type TwinRange struct {
	Sub  string `json:"sub"`
	Code uint16 `json:"code"`
	Min  int32  `json:"min"`
	Max  int32  `json:"max"`
}

type Desc struct {
	Mode string   `json:"mode"`
	Exit []uint16 `json:"exit"`
	// TwinNodes: sub-handler names for which the device has a second event node with the same name (not part of the
	// configuration file: the configuration cannot tell the two nodes apart)
	TwinNodes []string `json:"twin_nodes,omitempty"`
	// TwinRanges: axes for which the second node of a name reports another range than the first (a range belongs to the
	// event node, not to the name the configuration addresses it by)
	TwinRanges []TwinRange  `json:"twin_ranges,omitempty"`
	ID         [4]uint16    `json:"id"` // bus vendor product version
	Uniq       string       `json:"uniq"`
	Octave     int          `json:"octave"`
	Semitone   int          `json:"semitone"`
	Channel    int          `json:"channel"`
	Velocity   int          `json:"velocity"`
	DefMapping string       `json:"def_mapping"`
	Actions    []ActionDef  `json:"actions"`
	Colors     [7]int       `json:"colors"` // white black c unavailable other active active_external
	Mappings   []MappingDef `json:"mappings"`
	ExitRaw    []string     `json:"exit_raw,omitempty"` // verbatim exit sequence names (overrides Exit)
	// Inject: verbatim lines added at an anchor: "top", "identifier", "defaults", "action_mapping", "open_rgb",
	// "mapping:<i>", "keys:<i>:<sub>", "analog:<i>:<sub>"
	Inject map[string]string `json:"inject,omitempty"`
}

func (m *MappingDef) hasKeySub(s string) bool {
	for _, x := range m.KeySubs {
		if x == s {
			return true
		}
	}
	return false
}

// ---- code <-> name tables (first name in sorted order for each code) ----

var keyCodeName = invertNames(evdev.KEYFromString)
var absCodeName = invertNames(evdev.ABSFromString)

func invertNames(m map[string]evdev.EvCode) map[uint16][]string {
	out := map[uint16][]string{}
	for name, code := range m {
		out[uint16(code)] = append(out[uint16(code)], name)
	}
	for c := range out {
		sort.Strings(out[c])
	}
	return out
}

func sortedCodes(m map[uint16][]string) []uint16 {
	out := make([]uint16, 0, len(m))
	for c := range m {
		out = append(out, c)
	}
	sort.Slice(out, func(i, j int) bool { return out[i] < out[j] })
	return out
}

var allKeyCodes = sortedCodes(keyCodeName)
var allAbsCodes = sortedCodes(absCodeName)

func hexName(code uint16) string { return "x" + strconv.FormatUint(uint64(code), 16) }

// Spelling options for the TOML emitter. The zero value is the canonical spelling.
type Spelling struct {
	// Pick returns a number in [0,n) for a named choice; nil = always 0.
	Pick func(label string, n int) int
	// Padded is set by the emitter when it wrote a note number with leading zeros: whether such a number has to be
	// accepted is not specified, only what it means if it is
	Padded bool
}

func (s *Spelling) pick(label string, n int) int {
	if s == nil || s.Pick == nil || n <= 1 {
		return 0
	}
	return s.Pick(label, n)
}

func tomlString(s string) string {
	var b strings.Builder
	b.WriteByte('"')
	for _, r := range s {
		switch {
		case r == '"':
			b.WriteString(`\"`)
		case r == '\\':
			b.WriteString(`\\`)
		case r == '\n':
			b.WriteString(`\n`)
		case r == '\t':
			b.WriteString(`\t`)
		case r < 0x20 || r == 0x7f:
			b.WriteString(fmt.Sprintf(`\u%04X`, r))
		default:
			b.WriteRune(r)
		}
	}
	b.WriteByte('"')
	return b.String()
}

func (s *Spelling) keyName(code uint16, table map[uint16][]string) string {
	names := table[code]
	if len(names) == 0 || s.pick("keyhex", 4) == 3 {
		return hexName(code)
	}
	return names[s.pick("keyalias", len(names))]
}

func (s *Spelling) intLit(v int) string {
	if v < 0 {
		return strconv.Itoa(v)
	}
	switch s.pick("intstyle", 5) {
	case 1:
		return fmt.Sprintf("0x%x", v)
	case 2:
		return fmt.Sprintf("0x%02X", v)
	case 3:
		return fmt.Sprintf("0o%o", v)
	case 4:
		if v >= 1000 {
			d := strconv.Itoa(v)
			return d[:len(d)-3] + "_" + d[len(d)-3:]
		}
	}
	return strconv.Itoa(v)
}

func floatLit(f float64) string {
	s := strconv.FormatFloat(f, 'g', -1, 64)
	if !strings.ContainsAny(s, ".eE") {
		s += ".0"
	}
	// TOML wants digits on both sides of the point and an exponent like e-05 is fine
	return s
}

var pitchNames = []string{"C", "C#", "D", "D#", "E", "F", "F#", "G", "G#", "A", "A#", "B"}

func (s *Spelling) noteText(note int) string {
	if note < 0 || note > 127 || s.pick("notestyle", 3) == 0 {
		// a number; now and then written with leading zeros (still a decimal number: "010" is ten)
		if note >= 0 && s.pick("notepad", 6) == 5 {
			s.Padded = true
			return fmt.Sprintf("%0*d", 2+s.pick("notepadwidth", 3), note)
		}
		return strconv.Itoa(note)
	}
	name := pitchNames[note%12] + strconv.Itoa(note/12-2)
	switch s.pick("notecase", 3) {
	case 1:
		return strings.ToLower(name)
	case 2:
		return strings.ToLower(name[:1]) + name[1:]
	}
	return name
}

func boolLit(b bool) string {
	if b {
		return "true"
	}
	return "false"
}

// RenderTOML renders the description as a device configuration file.
func RenderTOML(d *Desc, sp *Spelling) string {
	var b strings.Builder
	nl := func() {
		if sp.pick("blank", 3) == 1 {
			b.WriteString("\n")
		}
		if sp.pick("comment", 6) == 1 {
			b.WriteString("# generated\n")
		}
	}
	fmt.Fprintf(&b, "collision_mode = %s\n", tomlString(d.Mode))
	b.WriteString("exit_sequence = [")
	if d.ExitRaw != nil {
		for i, n := range d.ExitRaw {
			if i > 0 {
				b.WriteString(", ")
			}
			b.WriteString(tomlString(n))
		}
	} else {
		for i, c := range d.Exit {
			if i > 0 {
				b.WriteString(", ")
			}
			b.WriteString(tomlString(sp.keyName(c, keyCodeName)))
		}
	}
	b.WriteString("]\n")
	inject := func(anchor string) {
		if l, ok := d.Inject[anchor]; ok {
			b.WriteString(l)
			b.WriteString("\n")
		}
	}
	inject("top")
	nl()
	sections := []func(){
		func() {
			b.WriteString("[identifier]\n")
			fmt.Fprintf(&b, "  bus = %s\n  vendor = %s\n  product = %s\n  version = %s\n",
				sp.intLit(int(d.ID[0])), sp.intLit(int(d.ID[1])), sp.intLit(int(d.ID[2])), sp.intLit(int(d.ID[3])))
			if d.Uniq != "" || sp.pick("uniq-present", 2) == 1 {
				fmt.Fprintf(&b, "  uniq = %s\n", tomlString(d.Uniq))
			}
			inject("identifier")
		},
		func() {
			b.WriteString("[defaults]\n")
			lines := []string{
				fmt.Sprintf("  octave = %s\n", sp.intLit(d.Octave)),
				fmt.Sprintf("  semitone = %s\n", sp.intLit(d.Semitone)),
				fmt.Sprintf("  channel = %s\n", sp.intLit(d.Channel)),
				fmt.Sprintf("  mapping = %s\n", tomlString(d.DefMapping)),
				fmt.Sprintf("  velocity = %s\n", sp.intLit(d.Velocity)),
			}
			rot := sp.pick("defaults-order", len(lines))
			for i := range lines {
				b.WriteString(lines[(i+rot)%len(lines)])
			}
			inject("defaults")
		},
		func() {
			b.WriteString("[action_mapping]\n")
			for _, a := range d.Actions {
				name := sp.keyName(a.Code, keyCodeName)
				if a.RawName != "" {
					name = a.RawName
				}
				fmt.Fprintf(&b, "  %s = %s\n", name, tomlString(a.Action))
			}
			inject("action_mapping")
		},
		func() {
			b.WriteString("[open_rgb]\n")
			names := []string{"white", "black", "c", "unavailable", "other", "active", "active_external"}
			for i, n := range names {
				fmt.Fprintf(&b, "  %s = %s\n", n, sp.intLit(d.Colors[i]))
			}
			inject("open_rgb")
		},
	}
	rot := sp.pick("section-order", len(sections))
	for i := range sections {
		sections[(i+rot)%len(sections)]()
		nl()
	}
	for mi := range d.Mappings {
		m := &d.Mappings[mi]
		b.WriteString("[[mapping]]\n")
		fmt.Fprintf(&b, "  name = %s\n", tomlString(m.Name))
		inject(fmt.Sprintf("mapping:%d", mi))
		for _, sub := range m.KeySubs {
			b.WriteString("  [[mapping.keys]]\n")
			fmt.Fprintf(&b, "    subhandler = %s\n", tomlString(sub))
			inject(fmt.Sprintf("keys:%d:%s", mi, sub))
			b.WriteString("    [mapping.keys.map]\n")
			for _, k := range m.Keys {
				if k.Sub != sub {
					continue
				}
				val := sp.noteText(k.Note)
				if k.Off != 0 || sp.pick("explicit-zero-offset", 3) == 1 {
					val += "," + strconv.Itoa(k.Off)
				}
				name := sp.keyName(k.Code, keyCodeName)
				if k.RawName != "" {
					name = k.RawName
				}
				if k.RawValue != nil {
					val = *k.RawValue
				}
				fmt.Fprintf(&b, "      %s = %s\n", name, tomlString(val))
			}
			nl()
		}
		for _, as := range m.AnalogSubs {
			b.WriteString("  [[mapping.analog]]\n")
			fmt.Fprintf(&b, "    subhandler = %s\n", tomlString(as.Sub))
			if as.Default != nil {
				fmt.Fprintf(&b, "    default_deadzone = %s\n", floatLit(*as.Default))
			}
			inject(fmt.Sprintf("analog:%d:%s", mi, as.Sub))
			subTables := sp.pick("axis-subtables", 3) == 2
			var later []string
			if !subTables {
				b.WriteString("    [mapping.analog.map]\n")
			}
			hasDZ := false
			for ai := range m.Axes {
				a := &m.Axes[ai]
				if a.Sub != as.Sub {
					continue
				}
				if a.Deadzone != nil {
					hasDZ = true
				}
				fields := axisFields(a, sp)
				name := sp.keyName(a.Code, absCodeName)
				if a.RawName != "" {
					name = a.RawName
				}
				if subTables {
					var sb strings.Builder
					fmt.Fprintf(&sb, "    [mapping.analog.map.%s]\n", name)
					for _, f := range fields {
						fmt.Fprintf(&sb, "      %s\n", f)
					}
					later = append(later, sb.String())
				} else {
					fmt.Fprintf(&b, "      %s = { %s }\n", name, strings.Join(fields, ", "))
				}
			}
			for _, l := range later {
				b.WriteString(l)
			}
			if hasDZ || sp.pick("empty-deadzones", 3) == 1 {
				b.WriteString("    [mapping.analog.deadzones]\n")
				for ai := range m.Axes {
					a := &m.Axes[ai]
					if a.Sub == as.Sub && a.Deadzone != nil {
						name := sp.keyName(a.Code, absCodeName)
						if a.RawDZName != "" {
							name = a.RawDZName
						}
						fmt.Fprintf(&b, "      %s = %s\n", name, floatLit(*a.Deadzone))
					}
				}
			}
			nl()
		}
	}
	return b.String()
}

func axisFields(a *AxisDef, sp *Spelling) []string {
	fields := []string{fmt.Sprintf("type = %s", tomlString(a.Type))}
	if a.CC != nil {
		fields = append(fields, "cc = "+sp.intLit(*a.CC))
	}
	if a.CCNeg != nil {
		fields = append(fields, "cc_negative = "+sp.intLit(*a.CCNeg))
	}
	if a.Note != nil {
		fields = append(fields, "note = "+sp.intLit(*a.Note))
	}
	if a.NoteNeg != nil {
		fields = append(fields, "note_negative = "+sp.intLit(*a.NoteNeg))
	}
	if a.Off != nil {
		fields = append(fields, "channel_offset = "+sp.intLit(*a.Off))
	}
	if a.OffNeg != nil {
		fields = append(fields, "channel_offset_negative = "+sp.intLit(*a.OffNeg))
	}
	if a.Action != nil {
		fields = append(fields, "action = "+tomlString(*a.Action))
	}
	if a.ActionNeg != nil {
		fields = append(fields, "action_negative = "+tomlString(*a.ActionNeg))
	}
	if a.Flip != nil {
		fields = append(fields, "flip_axis = "+boolLit(*a.Flip))
	}
	if a.Center != nil {
		fields = append(fields, "deadzone_at_center = "+boolLit(*a.Center))
	}
	if a.Extra != "" {
		fields = append(fields, a.Extra)
	}
	// rotate everything after "type" for variety
	if n := len(fields) - 1; n > 1 {
		rot := sp.pick("axis-field-order", n)
		rest := append([]string{}, fields[1:]...)
		for i := range rest {
			fields[1+i] = rest[(i+rot)%n]
		}
	}
	return fields
}

func intp(v int) *int           { return &v }
func boolp(v bool) *bool        { return &v }
func strp(v string) *string     { return &v }
func floatp(v float64) *float64 { return &v }
