package harness

import (
	"fmt"
	"strings"
)

// Compact, human-readable renderings of generated cases for evidence/<id>.json.

func descSummary(d *Desc) map[string]interface{} {
	out := map[string]interface{}{
		"mode":     d.Mode,
		"defaults": fmt.Sprintf("octave %d semitone %d channel %d velocity %d mapping %q", d.Octave, d.Semitone, d.Channel, d.Velocity, d.DefMapping),
	}
	if len(d.Exit) > 0 {
		out["exit_sequence"] = d.Exit
	}
	var acts []string
	for _, a := range d.Actions {
		acts = append(acts, fmt.Sprintf("%d=%s", a.Code, a.Action))
	}
	if len(acts) > 0 {
		out["actions"] = strings.Join(acts, " ")
	}
	var maps []string
	for _, m := range d.Mappings {
		var keys []string
		for _, k := range m.Keys {
			sub := ""
			if k.Sub != "" {
				sub = k.Sub + "/"
			}
			keys = append(keys, fmt.Sprintf("%s%d->%d+%d", sub, k.Code, k.Note, k.Off))
		}
		var axes []string
		for _, a := range m.Axes {
			axes = append(axes, axisSummary(&a, effectiveDeadzone(&m, &a)))
		}
		s := fmt.Sprintf("%s: keys[%s]", m.Name, strings.Join(keys, " "))
		if len(axes) > 0 {
			s += " axes[" + strings.Join(axes, "; ") + "]"
		}
		maps = append(maps, s)
	}
	out["mappings"] = maps
	return out
}

func axisSummary(a *AxisDef, dz float64) string {
	s := fmt.Sprintf("abs%d %s [%d,%d] dz=%v", a.Code, a.Type, a.Min, a.Max, dz)
	if a.CC != nil {
		s += fmt.Sprintf(" cc=%d", *a.CC)
	}
	if a.CCNeg != nil {
		s += fmt.Sprintf(" cc_neg=%d", *a.CCNeg)
	}
	if a.Note != nil {
		s += fmt.Sprintf(" note=%d", *a.Note)
	}
	if a.NoteNeg != nil {
		s += fmt.Sprintf(" note_neg=%d", *a.NoteNeg)
	}
	if a.Off != nil {
		s += fmt.Sprintf(" off=%d", *a.Off)
	}
	if a.OffNeg != nil {
		s += fmt.Sprintf(" off_neg=%d", *a.OffNeg)
	}
	if a.Flip != nil && *a.Flip {
		s += " flip"
	}
	if a.Center != nil && *a.Center {
		s += " centre"
	}
	return s
}

func stepsSummary(steps []Step) string {
	var parts []string
	for i := 0; i < len(steps); i++ {
		s := steps[i]
		switch s.T {
		case "key":
			// collapse press+release of the same key into a tap
			if s.Val == 1 && i+1 < len(steps) && steps[i+1].T == "key" && steps[i+1].Code == s.Code && steps[i+1].Val == 0 {
				parts = append(parts, fmt.Sprintf("tap%d", s.Code))
				i++
			} else if s.Val == 1 {
				parts = append(parts, fmt.Sprintf("dn%d", s.Code))
			} else {
				parts = append(parts, fmt.Sprintf("up%d", s.Code))
			}
		case "abs":
			// collapse long ascending/descending sweeps
			j := i
			for j+1 < len(steps) && steps[j+1].T == "abs" && steps[j+1].Code == s.Code && (steps[j+1].Val == steps[j].Val+1 || steps[j+1].Val == steps[j].Val-1) {
				j++
			}
			if j-i >= 4 {
				parts = append(parts, fmt.Sprintf("abs%d:%d..%d", s.Code, s.Val, steps[j].Val))
				i = j
			} else {
				parts = append(parts, fmt.Sprintf("abs%d=%d", s.Code, s.Val))
			}
		case "rep":
			parts = append(parts, fmt.Sprintf("rep%d", s.Code))
		case "midi":
			parts = append(parts, fmt.Sprintf("midi-in:%x", s.Midi))
		}
	}
	if len(parts) > 80 {
		parts = append(parts[:80], fmt.Sprintf("… (%d events)", len(steps)))
	}
	return strings.Join(parts, " ")
}

func (c KeyCase) Sample() interface{} {
	return map[string]interface{}{"config": descSummary(c.D), "history (then disconnect)": stepsSummary(c.Steps)}
}

func (c C13Case) Sample() interface{} {
	return map[string]interface{}{"config": descSummary(c.D), "base history": stepsSummary(c.Steps), "panic pressed before event": c.At, "panic held for events": c.Hold}
}

func (c AxisCase) Sample() interface{} {
	return map[string]interface{}{"config": descSummary(c.D), "events": stepsSummary(c.Steps)}
}

func (c C15Case) Sample() interface{} {
	var ops []string
	for _, o := range c.Script {
		switch o.Kind {
		case "spawn":
			k := "reader"
			if o.Device {
				k = "device"
			}
			ops = append(ops, fmt.Sprintf("attach%d(%s)", o.Consumer, k))
		case "despawn":
			ops = append(ops, fmt.Sprintf("detach%d(after %dms)", o.Consumer, o.N))
		case "wait":
			ops = append(ops, fmt.Sprintf("wait%d", o.N))
		default:
			ops = append(ops, fmt.Sprintf("%s%d", o.Kind, o.Consumer))
		}
	}
	return map[string]interface{}{"capacities out/in/portOut/portIn": []int{c.OutCap, c.InCap, c.PortOutCap, c.PortInCap}, "emitters": c.Emitters,
		"input messages": c.InputN, "GOMAXPROCS": c.Procs, "fan-out fed directly": c.Direct, "script": strings.Join(ops, " ")}
}

func (c C20Case) Sample() interface{} {
	var hs []string
	for _, h := range c.Handlers {
		hs = append(hs, fmt.Sprintf("%s@%q caps%v (%s)", h.Name, h.Phys, h.Caps, c20Class(h.Caps)))
	}
	return map[string]interface{}{"handlers": hs, "orders compared": len(c.Perms) + 1}
}

func (c C10Case) Sample() interface{} {
	rs := &recSpelling{rec: c.Spell}
	text := RenderTOML(c.D, rs.spelling())
	if len(text) > 1500 {
		text = text[:1500] + "…"
	}
	out := map[string]interface{}{"toml": text}
	if c.Invalid != "" {
		out["invalidation (must be rejected)"] = c.Invalid
	}
	return out
}

func (c C09Case) Sample() interface{} {
	data := c.Data
	if data == nil {
		data = []byte(c.Text)
	}
	return map[string]interface{}{"bytes": len(data), "input": clip(fmt.Sprintf("%q", string(data)), 600)}
}
