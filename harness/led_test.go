//go:build verif

package harness

import (
	"fmt"
	"os"
	"runtime"
	"sort"
	"strings"
	"testing"
	"time"

	"github.com/gethiox/HIDI/internal/pkg/input"
	"github.com/gethiox/HIDI/internal/pkg/midi"
	"github.com/gethiox/HIDI/internal/pkg/midi/device"
	"github.com/gethiox/HIDI/internal/pkg/midi/device/config"
	"github.com/holoplot/go-evdev"
	"pgregory.net/rapid"
)

// The real LED loop (handleOpenrgb) runs against the fake OpenRGB server. It needs
//   - a handler whose (unexported) event name matches: input.VerifDeviceInfo (overlay hook, tag verif);
//   - /sys/class/hidraw/hidrawN/device/input/inputM/eventK: the driver bind-mounts a fixture directory there
//     inside a private mount namespace (unshare -m).

type LedStep struct {
	T    string `json:"t"` // key | midi | observe
	Code uint16 `json:"code,omitempty"`
	Val  int32  `json:"val,omitempty"`
	Midi []byte `json:"midi,omitempty"`
}

func (s LedStep) String() string {
	switch s.T {
	case "key":
		return fmt.Sprintf("key %d=%d", s.Code, s.Val)
	case "midi":
		return fmt.Sprintf("midi-in % x", s.Midi)
	case "abs":
		return fmt.Sprintf("abs %d=%d", s.Code, s.Val)
	}
	return s.T
}

type C17Case struct {
	D          *Desc     `json:"desc"`
	Controller string    `json:"controller"`
	LEDs       []string  `json:"leds"`
	Steps      []LedStep `json:"steps"`
	Before     []string  `json:"before,omitempty"` // other controllers the server lists before the device's keyboard
	After      []string  `json:"after,omitempty"`  // ... and after it
	// Hidraw numbers of the device's keyboard and of the other HID controllers in this connection ([0,1] when absent), and,
	// if Prior is set, in an earlier connection of the same keyboard within this process (it was unplugged and plugged in
	// again: the kernel hands out hidraw numbers anew, the event nodes of the harness stay event5 / event9).
	Hidraw []int `json:"hidraw,omitempty"`
	Prior  []int `json:"prior,omitempty"`
	// Busy: the reader of the device's MIDI output is busy for this long (ms) when the event stream ends (keys may be held:
	// the disconnect clean-up has to wait); the LEDs must still turn red
	Busy int `json:"busy,omitempty"`
}

// otherController: what else an OpenRGB server typically lists next to the keyboard.
func otherController(kind string, leds []string, otherHidraw int) OrgbController {
	switch kind {
	case "motherboard":
		return OrgbController{Name: "Fake Motherboard", Type: 0, Location: "I2C: /dev/i2c-0, address 0x40", LEDs: []string{"Aura 1", "Aura 2", "Aura 3"}}
	case "mouse":
		return OrgbController{Name: "Fake Mouse", Type: 6, Location: fmt.Sprintf("HID: /dev/hidraw%d", otherHidraw), LEDs: []string{"Logo", "Wheel"}}
	case "other-keyboard": // another keyboard, on another event node
		return OrgbController{Name: "Generic Keyboard", Type: 5, Location: fmt.Sprintf("HID: /dev/hidraw%d", otherHidraw), LEDs: leds}
	case "keyboard-no-hidraw":
		return OrgbController{Name: "Laptop Keyboard", Type: 5, Location: "ACPI: embedded controller", LEDs: leds}
	}
	return OrgbController{Name: "Fake DRAM", Type: 1, Location: "I2C: /dev/i2c-1, address 0x58", LEDs: []string{"DRAM 1"}}
}

// ledDevice is one real device.Device with its LED loop connected to the fake server.
type ledDevice struct {
	dev      device.Device
	in       chan *input.InputEvent
	midiIn   chan midi.Event // only for devices whose MIDI-in the test feeds directly (C17)
	out      chan midi.Event
	done     chan string
	inDev    input.Device
	index    int // controller index at the server
	returned bool
}

func ledInputDevice(d *Desc, event string) input.Device {
	dev := makeInputDevice(d, "verif-kbd")
	for i := range dev.Handlers {
		dev.Handlers[i].DeviceInfo = input.VerifDeviceInfo(event, dev.Handlers[i].DeviceInfo)
	}
	// the LED tests use one event node for the whole device (the loop matches the device by that name)
	merged := map[evdev.EvCode]evdev.AbsInfo{}
	for _, s := range subHandlers(d) {
		for c, ai := range axisInfosOf(d, s) {
			merged[c] = ai
		}
	}
	dev.AbsInfos = map[string]map[evdev.EvCode]evdev.AbsInfo{event: merged}
	return dev
}

func startLedDevice(cfg config.DeviceConfig, d *Desc, event string, index, port int, midiIn chan midi.Event) *ledDevice {
	ld := startLedDeviceRO(cfg, d, event, index, port, midiIn)
	ld.midiIn = midiIn
	return ld
}

func startLedDeviceRO(cfg config.DeviceConfig, d *Desc, event string, index, port int, midiIn <-chan midi.Event) *ledDevice {
	return startLedDeviceCap(cfg, d, event, index, port, midiIn, 65536)
}

// startLedDeviceCap: outCap is the capacity of the device's MIDI output queue (8 in the application)
func startLedDeviceCap(cfg config.DeviceConfig, d *Desc, event string, index, port int, midiIn <-chan midi.Event, outCap int) *ledDevice {
	ld := &ledDevice{in: make(chan *input.InputEvent), out: make(chan midi.Event, outCap), done: make(chan string, 1), index: index}
	ld.inDev = ledInputDevice(d, event)
	// the application reads its signal channel for as long as it runs (cmd/hidi handleSigs); so does the harness, for as
	// long as the device is processed
	sigs, sigsDone := make(chan os.Signal, 1), make(chan struct{})
	go func() {
		for {
			select {
			case <-sigs:
			case <-sigsDone:
				return
			}
		}
	}()
	ld.dev = device.NewDevice(ld.inDev, cfg, ld.out, midiIn, ledDeviceNoLogs, port, sigs)
	go func() {
		defer close(sigsDone)
		defer func() {
			if p := recover(); p != nil {
				buf := make([]byte, 1<<14)
				ld.done <- fmt.Sprintf("%v\n%s", p, buf[:runtime.Stack(buf, false)])
				return
			}
			ld.done <- ""
		}()
		ld.dev.ProcessEvents(ld.in)
	}()
	return ld
}

// ledDeviceNoLogs: whether the devices of the case that is running are created with their logging switched off
// (one case at a time per process)
var ledDeviceNoLogs = true

var ledSyn = &input.InputEvent{Event: evdev.InputEvent{Type: evdev.EV_SYN}}

func (ld *ledDevice) key(code uint16, val int32) error {
	ev := &input.InputEvent{Source: handlerFor(&ld.inDev, ""), Event: evdev.InputEvent{Type: evdev.EV_KEY, Code: evdev.EvCode(code), Value: val}}
	for _, e := range []*input.InputEvent{ev, ledSyn} {
		select {
		case ld.in <- e:
		case <-time.After(10 * time.Second):
			return fmt.Errorf("event processing is stuck")
		}
	}
	return nil
}

func (ld *ledDevice) abs(code uint16, val int32) error {
	ev := &input.InputEvent{Source: handlerFor(&ld.inDev, ""), Event: evdev.InputEvent{Type: evdev.EV_ABS, Code: evdev.EvCode(code), Value: val}}
	for _, e := range []*input.InputEvent{ev, ledSyn} {
		select {
		case ld.in <- e:
		case <-time.After(10 * time.Second):
			return fmt.Errorf("event processing is stuck")
		}
	}
	return nil
}

// midiFence: CC messages are ignored by the MIDI-in tracker; its receipt on the unbuffered channel proves
// that the previous message has been processed.
var midiFence = midi.Event{0xB0, 1, 0}

func (ld *ledDevice) midi(m []byte) error {
	for _, e := range []midi.Event{midi.Event(m), midiFence} {
		select {
		case ld.midiIn <- e:
		case <-time.After(10 * time.Second):
			return fmt.Errorf("MIDI-in processing is stuck")
		}
	}
	return nil
}

const ledObserveWait = 3 * time.Second

var ledSetupOnce struct {
	done bool
	err  error
}

func requireMount(t testing.TB) {
	if !HidrawMounted() {
		t.Fatalf("HARNESS: /sys/class/hidraw is not the fixture directory (run through ./check, which uses unshare -m)")
	}
}

// ---- reference frame function (C17) ----

type ledModel struct {
	d       *Desc
	m       *Model
	ext     [16]map[byte]bool
	ledCode map[int]uint16 // LED index -> key code (by construction of the layout)
	// learned role colours: "octave_up|1" -> colour
	roles   map[string][3]byte
	chanCol map[int][3]byte
}

func newLedModel(d *Desc, leds []string) *ledModel {
	lm := &ledModel{d: d, m: NewModel(d), ledCode: map[int]uint16{}, roles: map[string][3]byte{}, chanCol: map[int][3]byte{}}
	for i := range lm.ext {
		lm.ext[i] = map[byte]bool{}
	}
	for i, name := range leds {
		if code, ok := device.LedNameToKey[name]; ok {
			lm.ledCode[i] = uint16(code)
		}
	}
	return lm
}

func (lm *ledModel) feedMidi(m []byte) {
	if len(m) != 3 {
		return
	}
	ch := int(m[0] & 0x0f)
	switch m[0] & 0xf0 {
	case 0x90:
		if m[2] > 0 {
			lm.ext[ch][m[1]] = true
		} else {
			delete(lm.ext[ch], m[1]) // Note On with velocity 0 is a Note Off
		}
	case 0x80:
		delete(lm.ext[ch], m[1])
	}
}

func (lm *ledModel) feedKey(code uint16, val int32) {
	st := lm.m.Key("", code, val)
	if st.Kind == "panic" {
		for i := range lm.ext {
			lm.ext[i] = map[byte]bool{}
		}
	}
}

func near(a, b [3]byte, tol int) bool {
	for i := 0; i < 3; i++ {
		d := int(a[i]) - int(b[i])
		if d < -tol || d > tol {
			return false
		}
	}
	return true
}

func rgbOf(v int) [3]byte { return [3]byte{byte(v >> 16), byte(v >> 8), byte(v)} }

type ledExpect struct {
	Any     bool      // not compared
	Options [][3]byte // acceptable colours (tolerance 2)
	Role    string    // learned role key ("" = none)
	Why     string
	NotBase [][3]byte // for an unknown channel colour: must differ from these
	LearnCh int       // channel whose colour is learned from this LED (-1 none)
}

func valueClass(v int, up bool) string {
	if !up {
		v = -v
	}
	switch {
	case v <= 0:
		return "0"
	case v == 1:
		return "1"
	}
	return "2+"
}

func (lm *ledModel) expect(i int) ledExpect {
	code, ok := lm.ledCode[i]
	if !ok {
		return ledExpect{Any: true}
	}
	st := lm.m.ModelState
	offset := 12*st.Octave + st.Semitone
	cols := lm.d.Colors // white black c unavailable other active active_external
	if act, isAct := lm.m.actionOf[code]; isAct {
		last := len(lm.d.Mappings) - 1
		switch act {
		case "octave_up":
			return ledExpect{Role: "octave|" + valueClass(st.Octave, true), LearnCh: -1, Why: fmt.Sprintf("octave_up key, octave %d", st.Octave)}
		case "octave_down":
			return ledExpect{Role: "octave|" + valueClass(st.Octave, false), LearnCh: -1, Why: fmt.Sprintf("octave_down key, octave %d", st.Octave)}
		case "semitone_up":
			return ledExpect{Role: "semitone|" + valueClass(st.Semitone, true), LearnCh: -1, Why: fmt.Sprintf("semitone_up key, semitone %d", st.Semitone)}
		case "semitone_down":
			return ledExpect{Role: "semitone|" + valueClass(st.Semitone, false), LearnCh: -1, Why: fmt.Sprintf("semitone_down key, semitone %d", st.Semitone)}
		case "mapping_up":
			cl := "free"
			if st.Mapping == last {
				cl = "end"
			}
			return ledExpect{Role: "mapping|" + cl, LearnCh: -1, Why: fmt.Sprintf("mapping_up key, mapping %d of %d", st.Mapping, last+1)}
		case "mapping_down":
			cl := "free"
			if st.Mapping == 0 {
				cl = "end"
			}
			return ledExpect{Role: "mapping|" + cl, LearnCh: -1, Why: fmt.Sprintf("mapping_down key, mapping %d of %d", st.Mapping, last+1)}
		case "channel_up":
			if st.Channel == 15 {
				return ledExpect{Role: fmt.Sprintf("channel_up|end"), LearnCh: -1, Why: "channel_up key at channel 16"}
			}
			return ledExpect{Role: fmt.Sprintf("channel|%d", st.Channel), LearnCh: st.Channel, Why: fmt.Sprintf("channel_up key, channel %d", st.Channel+1)}
		case "channel_down":
			if st.Channel == 0 {
				return ledExpect{Role: fmt.Sprintf("channel_down|end"), LearnCh: -1, Why: "channel_down key at channel 1"}
			}
			return ledExpect{Role: fmt.Sprintf("channel|%d", st.Channel), LearnCh: st.Channel, Why: fmt.Sprintf("channel_down key, channel %d", st.Channel+1)}
		}
		return ledExpect{Any: true} // panic, multinote, cc_learning: the property does not describe their LEDs
	}
	k, mapped := lm.m.lookupKey("", code)
	if !mapped {
		return ledExpect{Any: true}
	}
	pitch := k.Note + offset
	if pitch < 0 || pitch > 127 {
		return ledExpect{Options: [][3]byte{rgbOf(cols[3])}, LearnCh: -1, Why: fmt.Sprintf("note key base %d, pitch %d out of MIDI range: unavailable", k.Note, pitch)}
	}
	var base [3]byte
	switch pitch % 12 {
	case 0:
		base = rgbOf(cols[2])
	case 1, 3, 6, 8, 10:
		base = rgbOf(cols[1])
	default:
		base = rgbOf(cols[0])
	}
	var opts [][3]byte
	why := []string{}
	for _, hn := range lm.m.perKey {
		if hn.Pitch == pitch {
			opts = append(opts, rgbOf(cols[5]))
			why = append(why, "sounding from the keyboard")
			break
		}
	}
	learn := -1
	unknownChannel := false
	unknownChannels := 0
	onCurrent := lm.ext[st.Channel][byte(pitch)]
	for ch := 0; ch < 16; ch++ {
		if !lm.ext[ch][byte(pitch)] {
			continue
		}
		if ch == st.Channel {
			opts = append(opts, rgbOf(cols[6]))
			why = append(why, "sounding on MIDI input, current channel")
		} else if onCurrent {
			// a pitch sounding on the current channel shows the external colour; that it also sounds on another
			// channel does not turn it into that channel's colour
			continue
		} else if c, ok := lm.chanCol[ch]; ok {
			opts = append(opts, c)
			why = append(why, fmt.Sprintf("sounding on MIDI input, channel %d", ch+1))
		} else {
			unknownChannel = true
			unknownChannels++
			learn = ch
			why = append(why, fmt.Sprintf("sounding on MIDI input, channel %d (colour not learned yet)", ch+1))
		}
	}
	if len(opts) == 0 && !unknownChannel {
		return ledExpect{Options: [][3]byte{base}, LearnCh: -1, Why: fmt.Sprintf("note key base %d, pitch %d: pitch-class colour", k.Note, pitch)}
	}
	e := ledExpect{Options: opts, LearnCh: -1, Why: fmt.Sprintf("note key base %d, pitch %d: %s", k.Note, pitch, strings.Join(why, " + "))}
	if unknownChannel {
		e.NotBase = [][3]byte{base, rgbOf(cols[3])}
		// the colour on display can be attributed to a channel only when a single channel of unknown colour sounds the pitch
		if len(opts) == 0 && unknownChannels == 1 {
			e.LearnCh = learn
		}
	}
	return e
}

// match compares a frame with the expectation; on success it returns the facts to learn.
func (lm *ledModel) match(colors [][3]byte) (ok bool, mismatch string, learnRoles map[string][3]byte, learnCh map[int][3]byte) {
	learnRoles, learnCh = map[string][3]byte{}, map[int][3]byte{}
	for i, got := range colors {
		e := lm.expect(i)
		if e.Any {
			continue
		}
		if e.Role != "" {
			if want, known := lm.roles[e.Role]; known {
				if !near(got, want, 2) {
					return false, fmt.Sprintf("LED %d (%s): colour %v, but the same value class showed %v before", i, e.Why, got, want), nil, nil
				}
			} else {
				learnRoles[e.Role] = got
			}
			if e.LearnCh >= 0 {
				if want, known := lm.chanCol[e.LearnCh]; known {
					if !near(got, want, 2) {
						return false, fmt.Sprintf("LED %d (%s): colour %v, but channel %d is shown as %v elsewhere", i, e.Why, got, e.LearnCh+1, want), nil, nil
					}
				} else {
					learnCh[e.LearnCh] = got
				}
			}
			continue
		}
		hit := false
		for _, o := range e.Options {
			if near(got, o, 2) {
				hit = true
			}
		}
		if !hit && len(e.NotBase) > 0 {
			hit = true
			for _, b := range e.NotBase {
				if near(got, b, 2) {
					hit = false
				}
			}
			if hit && e.LearnCh >= 0 {
				learnCh[e.LearnCh] = got
			}
		}
		if !hit {
			return false, fmt.Sprintf("LED %d (%s): colour %v, expected %v", i, e.Why, got, e.Options), nil, nil
		}
	}
	return true, "", learnRoles, learnCh
}

// distinct: value classes the property distinguishes must not share a colour.
func (lm *ledModel) distinctProblem() string {
	keys := make([]string, 0, len(lm.roles))
	for k := range lm.roles {
		keys = append(keys, k)
	}
	sort.Strings(keys)
	for i, a := range keys {
		for _, b := range keys[i+1:] {
			pa, pb := strings.SplitN(a, "|", 2), strings.SplitN(b, "|", 2)
			if pa[0] != pb[0] || pa[1] == pb[1] {
				continue
			}
			if near(lm.roles[a], lm.roles[b], 2) {
				return fmt.Sprintf("%s shows %v for value class %s and for value class %s: the LED does not reflect the value", pa[0], lm.roles[a], pa[1], pb[1])
			}
		}
	}
	return ""
}

func allRed(colors [][3]byte) bool {
	if len(colors) == 0 {
		return false
	}
	for _, c := range colors {
		if c[0] == 0 || c[1] != 0 || c[2] != 0 {
			return false
		}
	}
	return true
}

func c17PriorConnection(c C17Case, ctrls []OrgbController, ci int) *Violation {
	srv, err := NewOrgbServer(ctrls)
	if err != nil {
		return violation("C17", "harness", "", "fake OpenRGB server: %v", err)
	}
	defer srv.Close()
	cfg, _, pv := parseDesc("C17", c.D)
	if pv != nil {
		return pv
	}
	ld := startLedDevice(config.DeviceConfig{ConfigFile: "verif.toml", ConfigType: "user", Config: cfg}, c.D, "event5", 0, srv.Port, make(chan midi.Event))
	deadline := time.Now().Add(12 * time.Second)
	for srv.Last(ci) == nil && time.Now().Before(deadline) {
		srv.WaitFrame(50 * time.Millisecond)
	}
	seen := srv.Last(ci) != nil
	close(ld.in)
	select {
	case p := <-ld.done:
		if p != "" {
			return violation("C17", "panic", "", "device code panicked in the earlier connection: %s", p)
		}
	case <-time.After(10 * time.Second):
		return violation("C17", "no-return", "", "ProcessEvents of the earlier connection did not return after the event stream ended")
	}
	if !seen {
		return violation("C17", "harness", "no-frames", "the LED loop of the earlier connection sent no frame within 12 s")
	}
	return nil
}

// checkC17 runs the case; one kind of outcome is run a second time before it counts. The OpenRGB client library reads a
// controller description with a single Read call: on a heavily loaded machine that read can come back short, the library
// then builds a controller with the wrong number of LEDs (seen once: 0) and every frame has the wrong length although HIDI
// did nothing wrong. A frame-length mismatch therefore has to show up in two independent runs of the case.
func checkC17(c C17Case) (nontrivial bool, v *Violation) {
	nontrivial, v = checkC17Once(c)
	if v != nil && v.Clause == "frame-mismatch" && strings.Contains(v.Message, "colours for") {
		classify("frame length mismatch: case run a second time")
		return checkC17Once(c)
	}
	return nontrivial, v
}

func checkC17Once(c C17Case) (nontrivial bool, v *Violation) {
	fixture := os.Getenv("VERIF_HIDRAW_FIXTURE")
	arrange := func(nums []int) ([]OrgbController, int, *Violation) {
		own, other := 0, 1
		if len(nums) == 2 && nums[0] != nums[1] {
			own, other = nums[0], nums[1]
		}
		if err := BuildHidrawFixture(fixture, map[int]string{own: "event5", other: "event9"}); err != nil {
			return nil, 0, violation("C17", "harness", "", "fixture: %v", err)
		}
		var ctrls []OrgbController
		for _, k := range c.Before {
			ctrls = append(ctrls, otherController(k, c.LEDs, other))
		}
		ci := len(ctrls) // the index the server lists the device's keyboard under
		ctrls = append(ctrls, OrgbController{Name: c.Controller, Type: 5, Location: fmt.Sprintf("HID: /dev/hidraw%d", own), LEDs: c.LEDs})
		for _, k := range c.After {
			ctrls = append(ctrls, otherController(k, c.LEDs, other))
		}
		return ctrls, ci, nil
	}
	if c.Prior != nil {
		// an earlier connection of the same keyboard, under the earlier numbering: up to its first frame, then unplugged
		ctrls, ci, av := arrange(c.Prior)
		if av != nil {
			return false, av
		}
		if pv := c17PriorConnection(c, ctrls, ci); pv != nil {
			return true, pv
		}
	}
	ctrls, ci, av := arrange(c.Hidraw)
	if av != nil {
		return false, av
	}
	srv, err := NewOrgbServer(ctrls)
	if err != nil {
		return false, violation("C17", "harness", "", "fake OpenRGB server: %v", err)
	}
	defer srv.Close()
	strays := func() string {
		for j := range ctrls {
			if j != ci && srv.Last(j) != nil {
				return fmt.Sprintf("controller %d (%s, listed as %v + the keyboard + %v) received LED frames of the device whose keyboard is controller %d", j, ctrls[j].Name, c.Before, c.After, ci)
			}
		}
		return ""
	}
	cfg, text, pv := parseDesc("C17", c.D)
	if pv != nil {
		return false, pv
	}
	_ = text
	curRun.Inflight(c)
	defer curRun.InflightDone()
	ld := startLedDevice(config.DeviceConfig{ConfigFile: "verif.toml", ConfigType: "user", Config: cfg}, c.D, "event5", 0, srv.Port, make(chan midi.Event))
	lm := newLedModel(c.D, c.LEDs)
	finish := func() *Violation {
		if ld.returned {
			return nil
		}
		if c.Busy > 0 {
			b := busyDisconnect(ld.in, ld.out, ld.done, c.Busy, 12*time.Second)
			ld.returned = true
			switch {
			case b.Stuck:
				return violation("C17", "no-return", "busy-receiver", "ProcessEvents did not return after the event stream ended (the reader of the MIDI output was busy for the first %d ms)\n%s", c.Busy, firstLines(allStacks(), 80))
			case b.Panic != "":
				return violation("C17", "panic", "", "device code panicked: %s", b.Panic)
			}
			classify("MIDI output busy at disconnect")
			return nil
		}
		close(ld.in)
		select {
		case p := <-ld.done:
			ld.returned = true
			if p != "" {
				return violation("C17", "panic", "", "device code panicked: %s", p)
			}
		case <-time.After(10 * time.Second):
			return violation("C17", "no-return", "", "ProcessEvents did not return after the event stream ended\n%s", firstLines(allStacks(), 80))
		}
		return nil
	}
	// wait for the LED loop to come up
	deadline := time.Now().Add(12 * time.Second)
	for srv.Last(ci) == nil && strays() == "" && time.Now().Before(deadline) {
		select {
		case p := <-ld.done:
			ld.returned = true
			return true, violation("C17", "panic", "", "device ended unexpectedly: %s", p)
		default:
		}
		srv.WaitFrame(50 * time.Millisecond)
	}
	if st := strays(); st != "" {
		finish()
		return true, violation("C17", "frames-to-wrong-controller", "", "%s", st)
	}
	if srv.Last(ci) == nil {
		finish()
		return false, violation("C17", "harness", "no-frames", "the LED loop sent no frame within 12 s (connections %d, requests %d)", srv.Connections, srv.Requests)
	}
	observes := 0
	for si, s := range c.Steps {
		switch s.T {
		case "key":
			lm.feedKey(s.Code, s.Val)
			if err := ld.key(s.Code, s.Val); err != nil {
				return true, violation("C17", "stuck", "", "step %d (%s): %v\n%s", si, s, err, firstLines(allStacks(), 80))
			}
		case "midi":
			lm.feedMidi(s.Midi)
			if err := ld.midi(s.Midi); err != nil {
				return true, violation("C17", "stuck", "", "step %d (%s): %v", si, s, err)
			}
		case "observe":
			observes++
			seq0 := srv.Seq()
			deadline := time.Now().Add(ledObserveWait)
			matched := false
			lastWhy := "no frame arrived"
			fence := time.Now()
			for time.Now().Before(deadline) {
				fr := srv.Since(ci, seq0)
				// What the keyboard shows is the newest frame it was sent. Frames 1-2 after the fence may have been computed
				// before it, so the third one counts; a loop that only sends when the picture changes (nothing says it has
				// to repeat itself every cycle) has had six of its cycles after 60 ms - if it sent nothing newer, the frame
				// that stands is its answer, and it has to stay the answer for a few more cycles
				settled := len(fr) < 3 && time.Since(fence) >= 60*time.Millisecond
				if last := srv.Last(ci); len(fr) >= 3 || (settled && last != nil) {
					f := *last
					if len(f.Colors) != len(c.LEDs) {
						lastWhy = fmt.Sprintf("frame has %d colours for %d LEDs", len(f.Colors), len(c.LEDs))
					} else if ok, why, lr, lc := lm.match(f.Colors); ok {
						if settled {
							time.Sleep(40 * time.Millisecond)
							if l2 := srv.Last(ci); l2 == nil || len(l2.Colors) != len(c.LEDs) {
								continue
							} else if ok2, _, _, _ := lm.match(l2.Colors); !ok2 {
								continue
							}
							classify("observation decided on a frame that was not repeated")
						}
						for k, col := range lr {
							lm.roles[k] = col
						}
						for k, col := range lc {
							lm.chanCol[k] = col
						}
						matched = true
						break
					} else {
						lastWhy = why
					}
				}
				srv.WaitFrame(20 * time.Millisecond)
			}
			if !matched {
				finish()
				return true, violation("C17", "frame-mismatch", ledMismatchKind(lastWhy),
					"observation %d (after step %d, state %s, mapping %q): for %v no LED frame matched the device state; last frame: %s",
					observes, si, lm.m.ModelState, lm.m.MappingName(), ledObserveWait, lastWhy)
			}
			if p := lm.distinctProblem(); p != "" {
				finish()
				return true, violation("C17", "role-not-distinct", strings.SplitN(p, " ", 2)[0], "observation %d (after step %d): %s", observes, si, p)
			}
			held := len(lm.m.perKey) > 0
			extOther := false
			for ch := 0; ch < 16; ch++ {
				if ch != lm.m.Channel && len(lm.ext[ch]) > 0 {
					extOther = true
				}
			}
			if held && extOther && (lm.m.Octave != 0 || lm.m.Semitone != 0) {
				nontrivial = true
			}
			classifyIf(held, "observe with a held key")
			classifyIf(extOther, "observe with an external note on another channel")
		}
	}
	if fv := finish(); fv != nil {
		return true, fv
	}
	// on disconnect all LEDs turn red
	deadline = time.Now().Add(3 * time.Second)
	red := false
	for time.Now().Before(deadline) {
		if f := srv.Last(ci); f != nil && allRed(f.Colors) {
			red = true
			break
		}
		srv.WaitFrame(20 * time.Millisecond)
	}
	if !red {
		f := srv.Last(ci)
		return true, violation("C17", "not-red-after-disconnect", "", "processing ended but the last LED frame is not all red: %v", clipColors(f))
	}
	if st := strays(); st != "" {
		return true, violation("C17", "frames-to-wrong-controller", "", "%s", st)
	}
	classifyIf(len(c.Before) > 0, "other controllers listed before the keyboard")
	classifyIf(c.Prior != nil, "keyboard plugged in again under other hidraw numbers")
	missing := false
	for _, a := range c.D.Actions {
		found := false
		for _, code := range lm.ledCode {
			if code == a.Code {
				found = true
			}
		}
		if !found {
			missing = true
		}
	}
	classifyIf(missing, "layout lacks the LED of an action key")
	classify(fmt.Sprintf("observations: %d", observes))
	return nontrivial || missing, nil
}

func ledMismatchKind(why string) string {
	switch {
	case strings.Contains(why, "MIDI input"):
		return "external"
	case strings.Contains(why, "from the keyboard"):
		return "active"
	case strings.Contains(why, "value class"), strings.Contains(why, "_up key"), strings.Contains(why, "_down key"):
		return "role"
	case strings.Contains(why, "pitch-class"), strings.Contains(why, "unavailable"):
		return "base"
	}
	return "other"
}

func clipColors(f *OrgbFrame) string {
	if f == nil {
		return "<no frame>"
	}
	if len(f.Colors) > 8 {
		return fmt.Sprintf("%v … (%d LEDs)", f.Colors[:8], len(f.Colors))
	}
	return fmt.Sprint(f.Colors)
}

// ---- generator ----

var ledKeyCodes = func() []uint16 {
	var out []uint16
	for code := range device.KeyToLedName {
		out = append(out, uint16(code))
	}
	sort.Slice(out, func(i, j int) bool { return out[i] < out[j] })
	return out
}()

var ledPalette = [7]int{0x00aa00, 0x0000aa, 0xaaaa00, 0x300808, 0x101010, 0xf0f0f0, 0xf000f0}

func genC17(t *rapid.T) C17Case {
	d := &Desc{Exit: []uint16{}, Channel: rapid.SampledFrom([]int{1, 1, 2, 10, 16}).Draw(t, "channel"), Velocity: 64, Colors: ledPalette}
	d.Mode = rapid.SampledFrom(allModes).Draw(t, "mode")
	d.Octave = rapid.SampledFrom([]int{0, 0, 1, -1, 2, -3}).Draw(t, "octave")
	d.Semitone = rapid.SampledFrom([]int{0, 0, 1, -1, 5}).Draw(t, "semitone")
	perm := rapid.Permutation(indices(len(ledKeyCodes))).Draw(t, "codes")
	nNote := rapid.IntRange(2, 10).Draw(t, "noteKeys")
	acts := []string{"octave_up", "octave_down", "semitone_up", "semitone_down", "channel_up", "channel_down", "mapping_up", "mapping_down", "panic", "multinote"}
	codes := make([]uint16, 0, nNote+len(acts))
	for i := 0; i < nNote+len(acts); i++ {
		codes = append(codes, ledKeyCodes[perm[i]])
	}
	for i, a := range acts {
		if rapid.IntRange(0, 9).Draw(t, "hasAction") < 7 {
			d.Actions = append(d.Actions, ActionDef{Code: codes[nNote+i], Action: a})
		}
	}
	nMap := rapid.IntRange(1, 3).Draw(t, "mappings")
	center := rapid.SampledFrom([]int{60, 60, 36, 5, 120}).Draw(t, "center")
	switch rapid.IntRange(0, 7).Draw(t, "extreme") {
	case 0: // notes at the bottom, pulled below zero by the semitone shift and back into range by the octave
		center = rapid.IntRange(2, 6).Draw(t, "lowCenter")
		d.Semitone = -rapid.IntRange(3, 11).Draw(t, "negSemitone")
		d.Octave = rapid.IntRange(1, 3).Draw(t, "posOctave")
	case 1: // the mirror image at the top
		center = rapid.IntRange(121, 125).Draw(t, "highCenter")
		d.Semitone = rapid.IntRange(3, 11).Draw(t, "posSemitone")
		d.Octave = -rapid.IntRange(1, 3).Draw(t, "negOctave")
	case 2: // far below: every key is out of range (offset <= -129), MIDI input still sounds
		center = rapid.IntRange(0, 8).Draw(t, "lowCenter")
		d.Octave = -rapid.IntRange(9, 10).Draw(t, "farOctave")
		d.Semitone = -rapid.IntRange(9, 30).Draw(t, "farSemitone")
	case 3: // far above
		center = rapid.IntRange(119, 127).Draw(t, "highCenter")
		d.Octave = rapid.IntRange(9, 10).Draw(t, "farOctave")
		d.Semitone = rapid.IntRange(9, 30).Draw(t, "farSemitone")
	}
	for mi := 0; mi < nMap; mi++ {
		m := MappingDef{Name: []string{"Piano", "Chromatic", "Drums"}[mi], KeySubs: []string{""}}
		for i := 0; i < nNote; i++ {
			if mi > 0 && rapid.IntRange(0, 3).Draw(t, "unmapped") == 0 {
				continue
			}
			m.Keys = append(m.Keys, KeyDef{Code: codes[i], Note: clampNote(center + rapid.IntRange(-7, 7).Draw(t, "delta")), Off: rapid.SampledFrom([]int{0, 0, 1}).Draw(t, "off")})
		}
		d.Mappings = append(d.Mappings, m)
	}
	d.DefMapping = d.Mappings[rapid.IntRange(0, nMap-1).Draw(t, "defMapping")].Name

	// LED layout: most of the keys in use plus other named keys and unnamed extras, in random order
	var leds []string
	for _, code := range codes {
		if rapid.IntRange(0, 9).Draw(t, "hasLED") < 8 {
			leds = append(leds, device.KeyToLedName[evdev.EvCode(code)])
		}
	}
	for i := rapid.IntRange(0, 8).Draw(t, "otherLEDs"); i > 0; i-- {
		leds = append(leds, device.KeyToLedName[evdev.EvCode(ledKeyCodes[perm[len(codes)+i]])])
	}
	for i := rapid.IntRange(0, 3).Draw(t, "extras"); i > 0; i-- {
		leds = append(leds, fmt.Sprintf("Logo %d", i))
	}
	// LEDs that real controllers list and HIDI has no key for: ISO variants, media and function keys, light bars. They are not
	// LEDs of mapped keys; the LEDs of the mapped keys are owed their colours whatever else the controller lists, in any order.
	if rapid.IntRange(0, 2).Draw(t, "realExtras") == 0 {
		pool := []string{"Key: \\ (ISO)", "Key: #", "Key: Enter (ISO)", "Key: Fn", "Key: Media Play/Pause", "Key: Media Mute", "Key: Brightness", "Underglow 1",
			"Light Bar 3", "Key: Right Fn", "Key: Number Pad Clear", "key: a", "Key: A ", "Key:A"}
		known := map[string]bool{}
		for _, n := range device.KeyToLedName {
			known[n] = true
		}
		pp := rapid.Permutation(indices(len(pool))).Draw(t, "realExtraOrder")
		for i := rapid.IntRange(1, 5).Draw(t, "realExtraN"); i > 0; i-- {
			if n := pool[pp[i]]; !known[n] {
				leds = append(leds, n)
			}
		}
	}
	if len(leds) == 0 {
		leds = []string{device.KeyToLedName[evdev.EvCode(codes[0])]}
	}
	order := rapid.Permutation(indices(len(leds))).Draw(t, "ledOrder")
	layout := make([]string, len(leds))
	for i, k := range order {
		layout[i] = leds[k]
	}
	c := C17Case{D: d, LEDs: layout, Controller: rapid.SampledFrom([]string{"Generic Keyboard", "Generic Keyboard", "HyperX Alloy Elite 2 (HP)"}).Draw(t, "controller")}
	otherKinds := []string{"motherboard", "dram", "mouse", "other-keyboard", "keyboard-no-hidraw"}
	if rapid.IntRange(0, 2).Draw(t, "hasOthers") == 0 {
		c.Before = rapid.SliceOfN(rapid.SampledFrom(otherKinds), 0, 3).Draw(t, "before")
		c.After = rapid.SliceOfN(rapid.SampledFrom(otherKinds), 0, 2).Draw(t, "after")
	}
	if rapid.IntRange(0, 5).Draw(t, "busyAtDisconnect") == 0 {
		c.Busy = rapid.IntRange(600, 1200).Draw(t, "busyMs")
	}
	if rapid.IntRange(0, 7).Draw(t, "replug") == 0 {
		nums := rapid.Permutation([]int{0, 1, 2, 3}).Draw(t, "hidrawNumbers")
		c.Prior = []int{nums[0], nums[1]}
		switch rapid.IntRange(0, 2).Draw(t, "renumbering") {
		case 0: // the two keyboards swap their numbers
			c.Hidraw = []int{nums[1], nums[0]}
		case 1: // the other keyboard takes over this keyboard's old number
			c.Hidraw = []int{nums[2], nums[0]}
		default:
			c.Hidraw = []int{nums[2], nums[3]}
		}
		if len(c.Before) == 0 || rapid.Bool().Draw(t, "otherFirst") {
			c.Before = append([]string{"other-keyboard"}, c.Before...)
		}
	}
	if c.Controller == "HyperX Alloy Elite 2 (HP)" && rapid.Bool().Draw(t, "withStrip") {
		for i := 1; i <= 18; i++ {
			c.LEDs = append(c.LEDs, fmt.Sprintf("RGB Strip %d", i))
		}
	}

	// steps
	h := newHistState(d)
	mdl := NewModel(d)
	n := rapid.IntRange(3, 24).Draw(t, "steps")
	emit := func(code uint16, val int32) {
		c.Steps = append(c.Steps, LedStep{T: "key", Code: code, Val: val})
		mdl.Key("", code, val)
	}
	flush := func(from int) {
		for _, s := range h.steps[from:] {
			emit(s.Code, s.Val)
		}
	}
	for len(c.Steps) < n {
		from := len(h.steps)
		switch k := rapid.IntRange(0, 9).Draw(t, "what"); {
		case k < 3 && len(h.noteKeys) > 0:
			h.toggle(h.noteKeys[rapid.IntRange(0, len(h.noteKeys)-1).Draw(t, "key")])
			flush(from)
		case k < 6 && len(h.actKeys) > 0:
			code := h.actKeys[rapid.IntRange(0, len(h.actKeys)-1).Draw(t, "act")]
			// keep |12*octave+semitone| <= 127: beyond that the property's "reachable" combinations are not explored here
			act := h.actions[code]
			o, s := mdl.Octave, mdl.Semitone
			switch act {
			case "octave_up":
				o++
			case "octave_down":
				o--
			case "semitone_up":
				s++
			case "semitone_down":
				s--
			}
			_, _ = o, s // (every combination is reachable: no bound on the transposition any more)
			h.tap(code)
			flush(from)
		case k < 9:
			ch := mdl.Channel
			if rapid.IntRange(0, 2).Draw(t, "otherChannel") > 0 {
				ch = rapid.IntRange(0, 15).Draw(t, "midiCh")
			}
			note := rapid.IntRange(0, 127).Draw(t, "midiNote")
			if keys := d.Mappings[mdl.Mapping].Keys; len(keys) > 0 && rapid.IntRange(0, 9).Draw(t, "onKey") < 8 {
				kd := keys[rapid.IntRange(0, len(keys)-1).Draw(t, "whichKey")]
				if p := kd.Note + 12*mdl.Octave + mdl.Semitone; p >= 0 && p <= 127 {
					note = p
				} else if alias := ((p % 256) + 256) % 256; alias <= 127 {
					note = alias // the pitch that equals this (out of range) key's pitch in 8-bit arithmetic
				}
			}
			var m []byte
			if rapid.IntRange(0, 5).Draw(t, "otherMessage") == 0 {
				// something that is not a note: it changes no highlight (and must not stop the notes after it from doing so)
				c.Steps = append(c.Steps, LedStep{T: "midi", Midi: otherMidiMessage(t)})
			}
			switch rapid.IntRange(0, 4).Draw(t, "midiKind") {
			case 0:
				m = []byte{0x80 | byte(ch), byte(note), 0}
			case 1:
				m = []byte{0x90 | byte(ch), byte(note), 0} // Note On with velocity 0
			default:
				m = []byte{0x90 | byte(ch), byte(note), byte(rapid.IntRange(1, 127).Draw(t, "vel"))}
			}
			c.Steps = append(c.Steps, LedStep{T: "midi", Midi: m})
			// now and then the same pitch is struck twice (or three times) before its one release - a retriggering arpeggiator,
			// an overdub: one Note Off / Note On with velocity 0 clears the highlight however often the note was struck
			if m[0]&0xf0 == 0x90 && m[2] > 0 && rapid.IntRange(0, 3).Draw(t, "struckAgain") == 0 {
				for k := rapid.IntRange(1, 2).Draw(t, "strikes"); k > 0; k-- {
					c.Steps = append(c.Steps, LedStep{T: "midi", Midi: []byte{m[0], m[1], byte(rapid.IntRange(1, 127).Draw(t, "vel2"))}})
				}
				if rapid.IntRange(0, 2).Draw(t, "observeStruck") == 0 {
					c.Steps = append(c.Steps, LedStep{T: "observe"})
				}
				rel := []byte{0x80 | m[0]&0x0f, m[1], 0}
				if rapid.Bool().Draw(t, "relVel0") {
					rel = []byte{m[0], m[1], 0}
				}
				c.Steps = append(c.Steps, LedStep{T: "midi", Midi: rel}, LedStep{T: "observe"})
			}
		default:
		}
		if rapid.IntRange(0, 9).Draw(t, "observe") < 6 {
			c.Steps = append(c.Steps, LedStep{T: "observe"})
		}
	}
	c.Steps = append(c.Steps, LedStep{T: "observe"})
	return c
}

func TestC17(t *testing.T) {
	requireMount(t)
	ReplayOrRapid(t, NewRun(t, "C17"), checkC17, genC17)
}

func ledStepsSummary(steps []LedStep) string {
	var parts []string
	for _, s := range steps {
		switch s.T {
		case "key":
			if s.Val == 1 {
				parts = append(parts, fmt.Sprintf("dn%d", s.Code))
			} else {
				parts = append(parts, fmt.Sprintf("up%d", s.Code))
			}
		case "midi":
			parts = append(parts, fmt.Sprintf("midi-in:%x", s.Midi))
		case "abs":
			parts = append(parts, fmt.Sprintf("abs%d=%d", s.Code, s.Val))
		default:
			parts = append(parts, "OBSERVE")
		}
	}
	return strings.Join(parts, " ")
}

func (c C17Case) Sample() interface{} {
	return map[string]interface{}{"config": descSummary(c.D), "controller": c.Controller, "led layout": c.LEDs, "steps": ledStepsSummary(c.Steps)}
}
