package harness

import (
	"fmt"
	"math/big"
)

// Exact (rational) reference of the axis shaping chain, written from the README and the
// property text of C06: normalise, optional centre shift, deadzone rescale, flip.

type shaped struct {
	S        *big.Rat // shaped, flipped position: [-1,1] when CanNeg, else [0,1]
	PreFlip  *big.Rat // shaped position before flip
	CanNeg   bool
	InDead   bool // strictly inside the deadzone
	AtDZEdge bool // exactly on the deadzone boundary (either reading accepted)
}

func ratFloat(f float64) *big.Rat {
	r := new(big.Rat)
	r.SetFloat64(f)
	return r
}

var (
	ratZero = big.NewRat(0, 1)
	ratOne  = big.NewRat(1, 1)
	ratHalf = big.NewRat(1, 2)
)

func effectiveDeadzone(m *MappingDef, a *AxisDef) float64 {
	if a.Deadzone != nil {
		return *a.Deadzone
	}
	for _, s := range m.AnalogSubs {
		if s.Sub == a.Sub && s.Default != nil {
			return *s.Default
		}
	}
	return 0
}

func exactShape(a *AxisDef, dzf float64, raw int32) shaped {
	// the position within the travel the axis reports: an axis without negative values travels from its minimum - which need
	// not be 0 (a 1..255 stick, a touchpad reporting 1472..5472) - to its maximum; an axis with negative values has its centre
	// at 0 and two sides of possibly different length, of which one may be missing (-255..0)
	var n *big.Rat
	switch {
	case a.Min >= 0 && a.Max > a.Min:
		n = big.NewRat(int64(raw)-int64(a.Min), int64(a.Max)-int64(a.Min))
	case a.Min >= 0:
		n = new(big.Rat)
	case raw < 0:
		n = big.NewRat(int64(raw), -int64(a.Min)) // raw/|min|
	case a.Max > 0:
		n = big.NewRat(int64(raw), int64(a.Max))
	default:
		n = new(big.Rat)
	}
	sh := shaped{CanNeg: a.Min < 0}
	// deadzone_at_center moves the deadzone of an axis that starts at 0 to the middle of its range; a signed axis already
	// has its deadzone at the centre (0), the option changes nothing there
	if a.Center != nil && *a.Center && a.Min >= 0 {
		n = new(big.Rat).Sub(new(big.Rat).Mul(n, big.NewRat(2, 1)), ratOne)
		sh.CanNeg = true
	}
	dz := ratFloat(dzf)
	abs := new(big.Rat).Abs(n)
	cmp := abs.Cmp(dz)
	var s *big.Rat
	switch {
	case cmp < 0:
		sh.InDead = true
		s = new(big.Rat)
	case cmp == 0:
		sh.AtDZEdge = true
		s = new(big.Rat)
	default:
		num := new(big.Rat).Sub(abs, dz)
		den := new(big.Rat).Sub(ratOne, dz)
		s = num.Quo(num, den)
		if n.Sign() < 0 {
			s.Neg(s)
		}
	}
	sh.PreFlip = new(big.Rat).Set(s)
	if a.Flip != nil && *a.Flip {
		if sh.CanNeg {
			s = new(big.Rat).Neg(s)
		} else {
			s = new(big.Rat).Sub(ratOne, s)
		}
	}
	sh.S = s
	return sh
}

func ratMulInt(r *big.Rat, k int64) *big.Rat { return new(big.Rat).Mul(r, big.NewRat(k, 1)) }

func ratF(r *big.Rat) float64 { f, _ := r.Float64(); return f }

// within reports |got - exact| <= tol.
func within(got int, exact *big.Rat, tol int64) bool {
	d := new(big.Rat).Sub(big.NewRat(int64(got), 1), exact)
	d.Abs(d)
	// "within one step": the implementation works in float64, whose rounding (about 1e-13 here) may
	// land on the other side of an integer boundary; 1e-6 of slack keeps the oracle sound
	lim := new(big.Rat).Add(big.NewRat(tol, 1), big.NewRat(1, 1000000))
	return d.Cmp(lim) <= 0
}

// keyValue is the position a key/action-emulating axis compares with +-0.5 / +-0.49: [-1,1].
func keyValue(sh shaped) *big.Rat {
	if sh.CanNeg {
		return sh.S
	}
	return new(big.Rat).Sub(ratMulInt(sh.S, 2), ratOne)
}

func nearRat(r *big.Rat, target float64) bool {
	d := new(big.Rat).Sub(r, ratFloat(target))
	d.Abs(d)
	return d.Cmp(big.NewRat(1, 1000000000)) < 0
}

func axisByCode(m *MappingDef, sub string, code uint16) *AxisDef {
	for i := range m.Axes {
		if m.Axes[i].Sub == sub && m.Axes[i].Code == code {
			return &m.Axes[i]
		}
	}
	return nil
}

// axisOfStep: the axis a step moves, as the current mapping configures it and with the range of the event node the step
// comes from (the second node of a name may report its own).
func axisOfStep(d *Desc, m *MappingDef, s Step) *AxisDef {
	a := axisByCode(m, s.Sub, s.Code)
	if a == nil || s.Node == 0 {
		return a
	}
	for _, tr := range d.TwinRanges {
		if tr.Sub == s.Sub && tr.Code == s.Code {
			b := *a
			b.Min, b.Max = tr.Min, tr.Max
			return &b
		}
	}
	return a
}

func axisLabel(a *AxisDef, dz float64) string {
	fl, ce := a.Flip != nil && *a.Flip, a.Center != nil && *a.Center
	return fmt.Sprintf("%s axis [%d,%d] deadzone=%v flip=%v centre=%v", a.Type, a.Min, a.Max, dz, fl, ce)
}
