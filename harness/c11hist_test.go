package harness

import (
	"encoding/hex"
	"fmt"
	"os"
	"os/exec"
	"strings"
	"testing"
	"time"

	"github.com/gethiox/HIDI/internal/pkg/midi"
	"github.com/gethiox/HIDI/internal/pkg/midi/device/config"
	"pgregory.net/rapid"
)

// C11, history part: the number -> name direction as Event.String prints it (the log line a user reads)
// must not depend on which events were formatted earlier in the process. Each case is a sequence of
// arbitrary 3-byte events (data bytes 0..255: MIDI input delivers whatever arrives); it is formatted in a
// FRESH child process (this test binary re-executed), so a case is a pure function of its events and
// process-wide state of the code under test starts clean. Asserted only for the 128 numbers: events of
// the three note-carrying types whose note byte is < 128 must print the reference name, and that
// name must read back to the same number.

const c11ChildEnv = "VERIF_C11_CHILD"

func TestMain(m *testing.M) {
	if h := os.Getenv(c11ChildEnv); h != "" {
		raw, err := hex.DecodeString(strings.TrimPrefix(h, "x"))
		if err != nil || len(raw)%3 != 0 {
			fmt.Println("bad child input")
			os.Exit(3)
		}
		for i := 0; i < len(raw); i += 3 {
			fmt.Println(midi.Event{raw[i], raw[i+1], raw[i+2]}.String())
		}
		os.Exit(0)
	}
	os.Exit(m.Run())
}

type C11HistCase struct {
	Events [][3]byte `json:"events"`
}

func checkC11History(c C11HistCase) (bool, *Violation) {
	raw := make([]byte, 0, 3*len(c.Events))
	for _, e := range c.Events {
		raw = append(raw, e[0], e[1], e[2])
	}
	cmd := exec.Command(os.Args[0])
	cmd.Env = append(os.Environ(), c11ChildEnv+"=x"+hex.EncodeToString(raw))
	done := make(chan struct{})
	var out []byte
	var err error
	go func() { out, err = cmd.CombinedOutput(); close(done) }()
	select {
	case <-done:
	case <-time.After(30 * time.Second):
		if cmd.Process != nil {
			cmd.Process.Kill()
		}
		return false, violation("C11", "history-hang", "", "formatting %d events did not finish within 30s", len(c.Events))
	}
	if err != nil {
		if ee, ok := err.(*exec.ExitError); ok && ee.ExitCode() == 2 { // a Go panic exits with status 2
			return true, violation("C11", "panic", "", "Event.String panicked on one of %x:\n%s", raw, firstLines(string(out), 12))
		}
		return false, violation("C11", "harness", "", "internal: child process failed: %v\n%s", err, firstLines(string(out), 12))
	}
	if len(c.Events) == 0 {
		return false, nil
	}
	lines := strings.Split(strings.TrimRight(string(out), "\n"), "\n")
	if len(lines) != len(c.Events) {
		return false, violation("C11", "harness", "", "internal: %d lines for %d events", len(lines), len(c.Events))
	}
	nontrivial := false
	polluted := map[byte]bool{} // low 7 bits of note bytes >= 128 seen so far
	for i, e := range c.Events {
		t := e[0] & 0xf0
		if t != 0x80 && t != 0x90 && t != 0xa0 {
			continue
		}
		if e[1] >= 128 {
			polluted[e[1]&0x7f] = true
			continue
		}
		if polluted[e[1]] {
			nontrivial = true
		}
		p, o := refName(int(e[1]))
		want := fmt.Sprintf("%-2s%2d", p, o)
		if !strings.Contains(lines[i], ": "+want+" (") {
			return true, violation("C11", "event-string-history", "",
				"event %d of the history (%x) is printed as %q, which does not name note %d as %q; earlier events: %x", i, e[:], lines[i], e[1], want, raw[:3*i])
		}
		back, err := config.StringToNote(strings.ReplaceAll(want, " ", ""))
		if err != nil || back != e[1] {
			return true, violation("C11", "round-trip", "", "the printed name %q of note %d reads back as %d, %v", want, e[1], back, err)
		}
	}
	classifyIf(nontrivial, "valid note formatted after an out-of-range byte with the same low 7 bits")
	return nontrivial, nil
}

func genC11History(t *rapid.T) C11HistCase {
	var c C11HistCase
	n := rapid.IntRange(1, 24).Draw(t, "events")
	pool := rapid.SliceOfN(rapid.IntRange(0, 127), 1, 4).Draw(t, "notes") // few notes, so that n and n+128 meet
	for i := 0; i < n; i++ {
		var st byte
		switch k := rapid.IntRange(0, 9).Draw(t, "type"); {
		case k < 3:
			st = 0x90
		case k < 6:
			st = 0x80
		case k < 8:
			st = 0xa0
		default:
			st = rapid.SampledFrom([]byte{0xb0, 0xc0, 0xd0, 0xe0, 0xf8, 0xfa, 0x00, 0x7f}).Draw(t, "otherStatus")
		}
		if st < 0xf0 && st >= 0x80 {
			st |= byte(rapid.IntRange(0, 15).Draw(t, "ch"))
		}
		note := byte(pool[rapid.IntRange(0, len(pool)-1).Draw(t, "note")])
		if rapid.IntRange(0, 2).Draw(t, "hi") == 0 {
			note |= 0x80
		}
		c.Events = append(c.Events, [3]byte{st, note, byte(rapid.IntRange(0, 255).Draw(t, "d2"))})
	}
	return c
}

func TestC11History(t *testing.T) {
	ReplayOrRapid(t, NewRun(t, "C11"), checkC11History, genC11History)
}
