package harness

import (
	"fmt"
	"math"

	"github.com/gethiox/HIDI/internal/pkg/midi/device/config"
)

// KeyCase is a generated case for the key-engine properties (C01-C05, C13, C14).
type KeyCase struct {
	D      *Desc  `json:"desc"`
	Steps  []Step `json:"steps"`
	NoLogs bool   `json:"nologs"`
	// BusySinkMs: the reader of the MIDI output is busy for this long when the device disconnects (see EngineOpts)
	BusySinkMs int `json:"busy_sink_ms,omitempty"`
	// Bystander: steps played on a second device of the same configuration before the history starts (see EngineOpts)
	Bystander []Step `json:"bystander,omitempty"`
	// QueueCap / ReaderDelayUs: the MIDI output queue has this capacity and a reader that takes this long per message
	QueueCap      int `json:"queue_cap,omitempty"`
	ReaderDelayUs int `json:"reader_delay_us,omitempty"`
}

type walkStep struct {
	Step  Step
	Model ModelStep
	Pre   ModelState // model state before the step
	Post  ModelState
	Res   StepResult
	// generator-side facts (model-free)
	KeysDownAfter int  // any key (note/action/other) still down after the step
	AxesAtRest    bool // every key-emulating axis is clearly inside its rest zone after the step
	HeldNotesPre  int
}

type walk struct {
	Case   *KeyCase
	Cfg    config.Config
	Run    RunResult
	Steps  []walkStep
	Model  *Model
	TOML   string
	AxisOn map[uint16]bool
}

func parseDesc(prop string, d *Desc) (config.Config, string, *Violation) {
	text := RenderTOML(d, nil)
	var cfg config.Config
	v := guard(prop, "config-parse-panic", func() *Violation {
		c, err := config.ParseData([]byte(text))
		if err != nil {
			return violation(prop, "config-rejected", "", "a valid generated configuration was rejected: %v\n%s", err, text)
		}
		cfg = c
		return nil
	})
	return cfg, text, v
}

// doWalk runs the case on the real device and on the reference model.
func doWalk(prop string, c *KeyCase) (*walk, *Violation) {
	cfg, text, v := parseDesc(prop, c.D)
	if v != nil {
		return nil, v
	}
	w := &walk{Case: c, Cfg: cfg, TOML: text, Model: NewModel(c.D)}
	w.Run = RunDevice(cfg, c.D, c.Steps, EngineOpts{NoLogs: c.NoLogs, BusySinkMs: c.BusySinkMs, Bystander: c.Bystander, QueueCap: c.QueueCap, ReaderDelayUs: c.ReaderDelayUs})
	if w.Run.Panic != "" {
		return w, violation(prop, "panic", "", "device code panicked: %s", w.Run.Panic)
	}
	if w.Run.Stuck != "" {
		return w, violation(prop, "stuck", "", "event processing did not make progress / did not return after the stream was closed\n%s", firstLines(w.Run.Stuck, 60))
	}
	if len(w.Run.Steps) != len(c.Steps) {
		return w, violation(prop, "harness", "", "internal: %d results for %d steps", len(w.Run.Steps), len(c.Steps))
	}
	down := map[PK]bool{}
	axisRest := map[uint16]bool{}
	axisInfo := map[uint16]AxisDef{}
	for _, m := range c.D.Mappings {
		for _, a := range m.Axes {
			axisInfo[a.Code] = a
			axisRest[a.Code] = true
		}
	}
	for i, s := range c.Steps {
		ws := walkStep{Step: s, Res: w.Run.Steps[i], Pre: w.Model.ModelState, HeldNotesPre: w.Model.HeldNoteKeys()}
		switch s.T {
		case "key":
			ws.Model = w.Model.Key(s.SK(), s.Code, s.Val)
			if s.Val == 1 {
				down[PK{s.SK(), s.Code}] = true
			} else {
				delete(down, PK{s.SK(), s.Code})
			}
		case "abs":
			axisRest[s.Code] = math.Abs(axisPos(axisInfo[s.Code], s.Val)) < 0.3
			ws.Model = ModelStep{Kind: "axis"}
		default:
			ws.Model = ModelStep{Kind: "ignored"}
			// key auto-repeat, events of other types (scan codes, LEDs, SYN_DROPPED ...) and MIDI input are not key or axis
			// events: whatever the property, they produce no MIDI output and change no state
			// (EV_SYN events are left out of this: silencing the device when the kernel reports dropped events would be a
			// legitimate reaction, and no property forbids it - the receiver-side oracles judge what comes of it)
			if len(ws.Res.Out) != 0 && !(s.T == "other" && s.Typ == 0) {
				return w, violation(prop, "non-key-event-emits", s.T, "step %d (%s) is neither a key nor an axis event but emitted %s", i, s, fmtMsgs(ws.Res.Out))
			}
		}
		ws.Post = w.Model.ModelState
		ws.KeysDownAfter = len(down)
		ws.AxesAtRest = true
		for _, r := range axisRest {
			if !r {
				ws.AxesAtRest = false
			}
		}
		w.Steps = append(w.Steps, ws)
	}
	return w, nil
}

func firstLines(s string, n int) string {
	cnt := 0
	for i, c := range s {
		if c == '\n' {
			cnt++
			if cnt >= n {
				return s[:i]
			}
		}
	}
	return s
}

func describeStep(i int, ws *walkStep) string {
	return fmt.Sprintf("step %d (%s; model: %s, state before: %s)", i, ws.Step, ws.Model.Kind+" "+ws.Model.Action, ws.Pre)
}

// ---------------------------------------------------------------- C01

func checkC01(c KeyCase) (bool, *Violation) {
	w, v := doWalk("C01", &c)
	if v != nil {
		return false, v
	}
	rx := NewReceiver()
	stateChangeWhileHeld, overlap := false, false
	for i := range w.Steps {
		ws := &w.Steps[i]
		for _, m := range ws.Res.Out {
			rx.Feed(m)
		}
		if ws.Model.Kind == "action-press" && ws.HeldNotesPre > 0 && ws.Model.Action != "multinote" && ws.Model.Action != "cc_learning" {
			stateChangeWhileHeld = true
		}
		if ws.Model.Kind == "note-press" && ws.HeldNotesPre > 0 {
			overlap = true
		}
		if ws.KeysDownAfter == 0 && ws.AxesAtRest && len(rx.Sounding) > 0 {
			return true, violation("C01", "quiescent-but-sounding", c.D.Mode,
				"no key or key-emulating axis is held after %s, but the receiver still has %v sounding (mode %s)",
				describeStep(i, ws), rx.SoundingList(), c.D.Mode)
		}
	}
	heldAtCut := false
	if n := len(w.Steps); n > 0 {
		heldAtCut = w.Steps[n-1].KeysDownAfter > 0 || !w.Steps[n-1].AxesAtRest
	}
	for _, m := range w.Run.Tail {
		rx.Feed(m)
	}
	if !w.Run.Returned {
		return true, violation("C01", "no-return", "", "processing did not end after the event stream ended")
	}
	if len(rx.Sounding) > 0 {
		return true, violation("C01", "disconnect-leaves-sounding", c.D.Mode,
			"event stream ended after %d steps; after processing ended the receiver still has %v sounding (clean-up sent %s)",
			len(w.Steps), rx.SoundingList(), fmtMsgs(w.Run.Tail))
	}
	if len(w.Run.Late) > 0 {
		return true, violation("C01", "emits-after-end", "", "messages emitted after processing ended: %s", fmtMsgs(w.Run.Late))
	}
	classifyIf(stateChangeWhileHeld, "state change while a note key is held")
	classifyIf(overlap, "overlapping note keys")
	classifyIf(heldAtCut, "disconnect with a key or axis held")
	classifyIf(heldAtCut && c.BusySinkMs > 0, "disconnect with notes held while the MIDI output is not being read")
	classify("mode " + c.D.Mode)
	classifyIf(len(c.Bystander) > 0, "a second device of the same model holds keys meanwhile")
	return (stateChangeWhileHeld && overlap) || heldAtCut, nil
}

// ---------------------------------------------------------------- C02

func isNoteOn(m []byte) bool { return len(m) == 3 && m[0]&0xf0 == 0x90 && m[2] > 0 }

// sameMsgSet: the same messages, in whatever order.
func sameMsgSet(a, b [][]byte) bool {
	if len(a) != len(b) {
		return false
	}
	n := map[string]int{}
	for _, m := range a {
		n[string(m)]++
	}
	for _, m := range b {
		n[string(m)]--
	}
	for _, v := range n {
		if v != 0 {
			return false
		}
	}
	return true
}

func isNoteOff(m []byte) bool {
	return len(m) == 3 && (m[0]&0xf0 == 0x80 || (m[0]&0xf0 == 0x90 && m[2] == 0))
}

func checkC02(c KeyCase) (bool, *Violation) {
	w, v := doWalk("C02", &c)
	if v != nil {
		return false, v
	}
	type pinned struct {
		ch, pitch  int
		registered bool
		stateAt    ModelState
	}
	pins := map[PK]pinned{}
	nontrivial := false
	// C02 is about what a release carries and about actions being silent - not about how octave, semitone, channel and
	// mapping move (C04). The reference model is consulted for two things a wire cannot show (what a press registered that
	// a collision mode kept silent, and which release is the last holder's); should the device report another state than
	// the model of C04 computes, those two are no longer asserted and everything else rests on what was observed.
	diverged := false
	for i := range w.Steps {
		ws := &w.Steps[i]
		out := ws.Res.Out
		if st := ws.Res.State; !diverged && (int(st.Octave) != ws.Post.Octave || int(st.Semitone) != ws.Post.Semitone || int(st.Channel) != ws.Post.Channel ||
			st.Mapping != c.D.Mappings[ws.Post.Mapping].Name) {
			diverged = true
			classify("device state differs from the model of C04: only what is observed is asserted from here")
		}
		if diverged && ws.Step.T == "key" && ws.Model.Kind != "action-press" && ws.Model.Kind != "action-release" && ws.Model.Kind != "exit" {
			k := PK{ws.Step.SK(), ws.Step.Code}
			if ws.Step.Val == 1 {
				var ons [][]byte
				for _, m := range out {
					if isNoteOn(m) {
						ons = append(ons, m)
					}
				}
				delete(pins, k)
				if len(ons) == 1 {
					pins[k] = pinned{ch: int(ons[0][0] & 0x0f), pitch: int(ons[0][1]), registered: true, stateAt: ws.Pre}
				} else if len(ons) > 1 {
					return true, violation("C02", "press-multiple-note-on", "", "%s emitted %s", describeStep(i, ws), fmtMsgs(out))
				}
			} else if ws.Step.Val == 0 {
				p, ok := pins[k]
				delete(pins, k)
				for _, m := range out {
					if ok && p.registered && isNoteOff(m) && (int(m[0]&0x0f) != p.ch || int(m[1]) != p.pitch) {
						return true, violation("C02", "release-not-pinned", c.D.Mode,
							"%s emitted Note Off %x, but the press of this key produced channel %d pitch %d", describeStep(i, ws), m, p.ch+1, p.pitch)
					}
				}
			}
			continue
		}
		switch ws.Model.Kind {
		case "note-press":
			p := pinned{stateAt: ws.Pre}
			var ons [][]byte
			for _, m := range out {
				if isNoteOn(m) {
					ons = append(ons, m)
				}
			}
			if len(ons) == 1 {
				p.ch, p.pitch, p.registered = int(ons[0][0]&0x0f), int(ons[0][1]), true
			} else if len(ons) == 0 && !ws.Model.OutOfRange {
				// suppressed by the collision mode (no_repeat with another holder): the model says what was registered
				hn := w.Model.perKeyAt(i, w, PK{ws.Step.SK(), ws.Step.Code})
				if hn != nil {
					p.ch, p.pitch, p.registered = hn.Ch, hn.Pitch, true
				}
			} else if len(ons) > 1 {
				return true, violation("C02", "press-multiple-note-on", "", "%s emitted %s", describeStep(i, ws), fmtMsgs(out))
			}
			pins[PK{ws.Step.SK(), ws.Step.Code}] = p
		case "note-release", "ignored":
			if ws.Step.T != "key" || ws.Step.Val != 0 {
				break
			}
			p, ok := pins[PK{ws.Step.SK(), ws.Step.Code}]
			delete(pins, PK{ws.Step.SK(), ws.Step.Code})
			offs := 0
			for _, m := range out {
				if isNoteOn(m) {
					return true, violation("C02", "release-emits-note-on", "", "%s emitted %s", describeStep(i, ws), fmtMsgs(out))
				}
				if !isNoteOff(m) {
					return true, violation("C02", "release-emits-other", "", "%s emitted %s", describeStep(i, ws), fmtMsgs(out))
				}
				offs++
				if !ok || !p.registered {
					return true, violation("C02", "release-without-press", "", "%s emitted %s although the press of this key registered no note", describeStep(i, ws), fmtMsgs(out))
				}
				if int(m[0]&0x0f) != p.ch || int(m[1]) != p.pitch {
					return true, violation("C02", "release-not-pinned", c.D.Mode,
						"%s emitted Note Off %x, but the press of this key produced channel %d pitch %d (state at press: %s)",
						describeStep(i, ws), m, p.ch+1, p.pitch, p.stateAt)
				}
			}
			if ok && p.registered {
				if c.D.Mode == "off" && offs != 1 {
					return true, violation("C02", "release-count", "off", "%s emitted %d Note Offs in mode off, want exactly 1 (%s)", describeStep(i, ws), offs, fmtMsgs(out))
				}
				if offs > 1 {
					return true, violation("C02", "release-count", "managed", "%s emitted %d Note Offs (%s)", describeStep(i, ws), offs, fmtMsgs(out))
				}
				// in the managed modes the release of the LAST holder of a pitch is the one that produces the Note Off
				// (the mode rule itself is C03's business; here: the pinned Note Off must not get lost)
				if c.D.Mode != "off" && offs == 0 && len(ws.Model.Out) == 1 {
					return true, violation("C02", "release-lost", c.D.Mode,
						"%s: this key is the last holder of channel %d pitch %d, but its release emitted no Note Off", describeStep(i, ws), p.ch+1, p.pitch)
				}
				if p.stateAt != ws.Pre {
					nontrivial = true
					classifyIf(p.stateAt.Mapping != ws.Pre.Mapping, "released under another mapping")
					classifyIf(p.stateAt.Channel != ws.Pre.Channel, "released under another channel")
					classifyIf(p.stateAt.Octave != ws.Pre.Octave || p.stateAt.Semitone != ws.Pre.Semitone, "released under another transposition")
				}
			}
		case "action-press", "action-release":
			if len(out) != 0 {
				return true, violation("C02", "action-emits", ws.Model.Action,
					"%s: the %s action emitted MIDI messages %s", describeStep(i, ws), ws.Model.Action, fmtMsgs(out))
			}
		}
	}
	return nontrivial, nil
}

// perKeyAt: what the model registered for the key pressed at step i (nil if nothing).
func (m *Model) perKeyAt(i int, w *walk, code PK) *heldNote {
	// replay the model up to and including step i
	mm := NewModel(w.Case.D)
	for j := 0; j <= i; j++ {
		s := w.Case.Steps[j]
		if s.T == "key" {
			mm.Key(s.SK(), s.Code, s.Val)
		}
	}
	if hn, ok := mm.perKey[code]; ok {
		return &hn
	}
	return nil
}

// ---------------------------------------------------------------- C03

func checkC03(c KeyCase) (bool, *Violation) {
	w, v := doWalk("C03", &c)
	if v != nil {
		return false, v
	}
	nontrivial := false
	for i := range w.Steps {
		ws := &w.Steps[i]
		// which keys meet on one (channel, pitch) follows from octave, semitone, channel and mapping; how those move is C04's
		// business. Should the device report other values than the model of C04 has, the mode rules can no longer be applied
		// to this history (nothing is asserted from there on)
		if i > 0 {
			ps, pm := w.Steps[i-1].Res.State, w.Steps[i-1].Post
			if int(ps.Octave) != pm.Octave || int(ps.Semitone) != pm.Semitone || int(ps.Channel) != pm.Channel || ps.Mapping != c.D.Mappings[pm.Mapping].Name {
				classify("device state differs from the model of C04: rest of the history not asserted")
				return nontrivial, nil
			}
		}
		switch ws.Model.Kind {
		case "note-press", "note-release":
			if ws.Model.Collision > 0 {
				nontrivial = true
				classify(fmt.Sprintf("press with %d other holder(s)", ws.Model.Collision))
				if ws.Pre != w.Steps[0].Pre {
					classify("collision reached through transposition/channel change")
				}
			}
			if !sameMsgs(ws.Res.Out, ws.Model.Out) {
				return true, violation("C03", "emission-rule", fmt.Sprintf("%s/%s", c.D.Mode, ws.Model.Kind),
					"mode %s, %s with %d other holder(s) of that channel/pitch: emitted %s, the mode's rule gives %s",
					c.D.Mode, describeStep(i, ws), ws.Model.Collision, fmtMsgs(ws.Res.Out), fmtMsgs(ws.Model.Out))
			}
		}
	}
	return nontrivial, nil
}

// ---------------------------------------------------------------- C04

func checkC04(c KeyCase) (bool, *Violation) {
	w, v := doWalk("C04", &c)
	if v != nil {
		return false, v
	}
	m0 := NewModel(c.D)
	if int(w.Run.Initial.Octave) != m0.Octave || int(w.Run.Initial.Semitone) != m0.Semitone ||
		int(w.Run.Initial.Channel) != m0.Channel || w.Run.Initial.Mapping != m0.MappingName() {
		return true, violation("C04", "initial-state", "", "initial state %+v, configured defaults: %s (%s)", w.Run.Initial, m0.ModelState, m0.MappingName())
	}
	nontrivial := false
	for i := range w.Steps {
		ws := &w.Steps[i]
		st := ws.Res.State
		wantMap := c.D.Mappings[ws.Post.Mapping].Name
		if int(st.Octave) != ws.Post.Octave || int(st.Semitone) != ws.Post.Semitone || int(st.Channel) != ws.Post.Channel || st.Mapping != wantMap {
			return true, violation("C04", "state", ws.Model.Action,
				"after %s the device reports octave=%d semitone=%d channel=%d mapping=%q, want %s (%q)",
				describeStep(i, ws), st.Octave, st.Semitone, int(st.Channel)+1, st.Mapping, ws.Post, wantMap)
		}
		if ws.Model.Kind == "note-press" {
			if ws.Model.OutOfRange || ws.Model.Wrapped || 12*ws.Pre.Octave > 127 || 12*ws.Pre.Octave < -128 {
				nontrivial = true
			}
			if !sameMsgs(ws.Res.Out, ws.Model.Out) {
				detail := "in-range"
				if ws.Model.OutOfRange {
					detail = "out-of-range"
				}
				return true, violation("C04", "press-arithmetic", detail,
					"%s: exact pitch %d; emitted %s, want %s", describeStep(i, ws), ws.Model.Pitch, fmtMsgs(ws.Res.Out), fmtMsgs(ws.Model.Out))
			}
		}
		if ws.Model.Saturated || ws.Model.PairReset {
			nontrivial = true
		}
		classifyIf(ws.Model.Saturated, "saturating step")
		classifyIf(ws.Model.PairReset, "pair reset")
		classifyIf(ws.Model.Kind == "note-press" && ws.Model.OutOfRange, "press out of range")
		classifyIf(ws.Model.Kind == "note-press" && ws.Model.Wrapped, "channel+offset wraps")
		classifyIf(ws.Model.Kind == "note-press" && (12*ws.Pre.Octave > 127 || 12*ws.Pre.Octave < -128), "press with |12*octave| past 8 bits")
	}
	return nontrivial, nil
}

// ---------------------------------------------------------------- C14

func checkC14(c KeyCase) (bool, *Violation) {
	w, v := doWalk("C14", &c)
	if v != nil {
		return false, v
	}
	nontrivial := false
	fired := false
	exitSet := map[uint16]bool{}
	for _, e := range c.D.Exit {
		exitSet[e] = true
	}
	overlap := false
	for _, k := range c.D.Exit {
		for _, a := range c.D.Actions {
			if a.Code == k {
				overlap = true
			}
		}
		for _, m := range c.D.Mappings {
			for _, kd := range m.Keys {
				if kd.Code == k {
					overlap = true
				}
			}
		}
	}
	order := []uint16{}
	rx := NewReceiver()
	modelApplies := true
	completedBy := map[uint16]bool{}
	for i := range w.Steps {
		ws := &w.Steps[i]
		// the swallowed press must leave nothing behind: octave, semitone, channel and mapping follow the reference
		// model (in which that press does not exist) for the whole history, also after the completion
		// How the values move otherwise is C04's business: a difference that first shows at any other step ends this comparison
		// (it says nothing about the exit sequence), one that first shows at a completing press or at the release of the key
		// that completed is what this clause is about.
		stateDiffers := func() bool {
			st := ws.Res.State
			return int(st.Octave) != ws.Post.Octave || int(st.Semitone) != ws.Post.Semitone || int(st.Channel) != ws.Post.Channel ||
				st.Mapping != c.D.Mappings[ws.Post.Mapping].Name
		}
		aboutExit := ws.Model.Signal || (ws.Step.T == "key" && ws.Step.Val == 0 && completedBy[ws.Step.Code])
		if ws.Model.Signal && ws.Step.T == "key" {
			completedBy[ws.Step.Code] = true
		} else if ws.Step.T == "key" && ws.Step.Val == 0 {
			delete(completedBy, ws.Step.Code)
		}
		if !modelApplies {
			// (nothing)
		} else if stateDiffers() && !aboutExit {
			modelApplies = false
			classify("device state differs from the model of C04 at a step that has nothing to do with the exit sequence: state no longer compared")
		} else if stateDiffers() {
			st := ws.Res.State
			return true, violation("C14", "state-after-swallowed-press", fmt.Sprint(fired),
				"%s: device reports octave=%d semitone=%d channel=%d mapping=%q, expected %s (exit sequence %v, completed earlier: %v)",
				describeStep(i, ws), st.Octave, st.Semitone, int(st.Channel)+1, st.Mapping, ws.Post, c.D.Exit, fired)
		}
		// a press of a sequence key that makes the sequence completely held (again): the statement's "key press that completes
		// the configured exit sequence", the first time and every later time (the application may still be shutting down, and
		// a second signal is what forces a stuck shutdown to quit)
		completing := ws.Step.T == "key" && ws.Step.Val == 1 && exitSet[ws.Step.Code] && ws.Model.Signal
		if fired && !completing {
			// left open: presses of OTHER keys while the whole sequence stays held (the code raises the signal again for each).
			// Not open: a signal while the sequence is not completely held.
			if !ws.Model.Signal && ws.Res.Signals != 0 {
				return true, violation("C14", "spurious-signal", fmt.Sprintf("again-len%d", len(c.D.Exit)),
					"%s raised %d termination signal(s) although the exit sequence %v is not completely held (it was completed earlier in the history)", describeStep(i, ws), ws.Res.Signals, c.D.Exit)
			}
			for _, m := range ws.Res.Out {
				rx.Feed(m)
			}
			continue
		}
		if ws.Step.T == "key" && ws.Step.Val == 1 && exitSet[ws.Step.Code] {
			order = append(order, ws.Step.Code)
		}
		if ws.Model.Signal {
			if fired {
				nontrivial = true
				classify("completed again")
			}
			fired = true
			if ws.Res.Signals != 1 {
				return true, violation("C14", "no-signal-on-completion", "",
					"%s completes the exit sequence %v (all its keys are down) but %d termination signals were raised", describeStep(i, ws), c.D.Exit, ws.Res.Signals)
			}
			if len(ws.Res.Out) != 0 {
				return true, violation("C14", "completing-press-not-swallowed", "midi",
					"%s completes the exit sequence but also emitted %s", describeStep(i, ws), fmtMsgs(ws.Res.Out))
			}
			pre := w.Run.Initial
			if i > 0 {
				pre = w.Run.Steps[i-1].State
			}
			post := ws.Res.State
			if pre.Octave != post.Octave || pre.Semitone != post.Semitone || pre.Channel != post.Channel || pre.Mapping != post.Mapping || pre.Notes != post.Notes {
				return true, violation("C14", "completing-press-not-swallowed", "state",
					"%s completes the exit sequence but changed the device state from %+v to %+v", describeStep(i, ws), pre, post)
			}
			if len(c.D.Exit) >= 2 {
				// completed in an order other than the configured one?
				last := order[len(order)-1]
				if last != c.D.Exit[len(c.D.Exit)-1] {
					nontrivial = true
				}
			}
			if overlap {
				nontrivial = true
			}
			classify(fmt.Sprintf("completed, sequence length %d", len(c.D.Exit)))
			classifyIf(overlap, "exit key is also a note/action key")
			continue
		}
		if ws.Res.Signals != 0 {
			return true, violation("C14", "spurious-signal", fmt.Sprintf("len%d", len(c.D.Exit)),
				"%s raised %d termination signal(s) although the exit sequence %v is not completely held", describeStep(i, ws), ws.Res.Signals, c.D.Exit)
		}
		for _, m := range ws.Res.Out {
			rx.Feed(m)
		}
		// near miss: all but one exit key held at some point
		if len(c.D.Exit) >= 2 && ws.Step.T == "key" && ws.Step.Val == 0 && exitSet[ws.Step.Code] {
			nontrivial = true
		}
	}
	for _, m := range w.Run.Tail {
		rx.Feed(m)
	}
	if len(rx.Sounding) > 0 {
		return true, violation("C14", "disconnect-leaves-sounding", "", "after the exit (disconnect) the receiver still has %v sounding", rx.SoundingList())
	}
	return nontrivial, nil
}

// ---------------------------------------------------------------- C13

// C13Case: a base history without panic, and a panic press inserted before step At, released
// Hold steps later (0 = immediately).
type C13Case struct {
	D      *Desc  `json:"desc"`
	Steps  []Step `json:"steps"`
	At     int    `json:"at"`
	Hold   int    `json:"hold"`
	NoLogs bool   `json:"nologs"`
	// ViaAxis: the inserted panic is not the panic key but a push of the hat that the description binds to the panic action
	// ({type = "action", action = "panic"}); +1 / -1: the direction that is bound. 0: the panic key.
	ViaAxis int `json:"via_axis,omitempty"`
}

// c13PanicAxis is the axis code (ABS_HAT0Y) that carries the panic action in the worlds that have one.
const c13PanicAxis = 0x11

func panicCode(d *Desc) (uint16, bool) {
	for _, a := range d.Actions {
		if a.Action == "panic" {
			return a.Code, true
		}
	}
	return 0, false
}

func checkC13(c C13Case) (bool, *Violation) {
	pc, ok := panicCode(c.D)
	if !ok {
		return false, violation("C13", "harness", "", "internal: description without a panic key")
	}
	at := c.At
	if at > len(c.Steps) {
		at = len(c.Steps)
	}
	rel := at + c.Hold
	if rel > len(c.Steps) {
		rel = len(c.Steps)
	}
	// with[i] -> index in base (or -1 for the inserted panic press / -2 for its release)
	var with []Step
	var origin []int
	for i := 0; i <= len(c.Steps); i++ {
		if i == at {
			if c.ViaAxis != 0 {
				with = append(with, Step{T: "abs", Code: c13PanicAxis, Val: int32(c.ViaAxis)})
			} else {
				with = append(with, Step{T: "key", Code: pc, Val: 1})
			}
			origin = append(origin, -1)
		}
		if i == rel {
			if c.ViaAxis != 0 {
				with = append(with, Step{T: "abs", Code: c13PanicAxis, Val: 0})
			} else {
				with = append(with, Step{T: "key", Code: pc, Val: 0})
			}
			origin = append(origin, -2)
		}
		if i < len(c.Steps) {
			with = append(with, c.Steps[i])
			origin = append(origin, i)
		}
	}
	base := KeyCase{D: c.D, Steps: c.Steps, NoLogs: c.NoLogs}
	wb, v := doWalk("C13", &base)
	if v != nil {
		return false, v
	}
	withCase := KeyCase{D: c.D, Steps: with, NoLogs: c.NoLogs}
	ww, v := doWalk("C13", &withCase)
	if v != nil {
		return false, v
	}
	heldAtPanic := map[PK]bool{}
	nontrivialHeld, laterSamePitch := false, false
	panicSeen := false
	heldPitches := map[heldNote]bool{}
	rx := NewReceiver()
	for i := range ww.Steps {
		ws := &ww.Steps[i]
		out := ws.Res.Out
		for _, m := range out {
			rx.Feed(m)
		}
		if ws.Model.Kind == "panic" {
			// every panic of the history (the inserted one and those of the base history) addresses the current channel
			if bv := checkPanicBurst(i, ws, prevChannel(ww, i)); bv != nil {
				return true, bv
			}
			if origin[i] >= 0 {
				classify("history with more than one panic")
			}
		}
		switch origin[i] {
		case -1:
			if c.ViaAxis != 0 {
				// the panic action triggered by an axis owes the same burst as the panic key
				classify("panic triggered by an axis")
				if bv := checkPanicBurst(i, ws, prevChannel(ww, i)); bv != nil {
					bv.Message = "panic triggered by pushing the hat bound to the panic action: " + bv.Message
					return true, bv
				}
			}
			panicSeen = true
			classifyIf(ww.Model.pairHeldAt(i, ww), "panic while both keys of an up/down pair are held")
			for code, hn := range ww.Model.perKeySnapshot(i, ww) {
				heldAtPanic[code] = true
				heldPitches[hn] = true
				nontrivialHeld = true
			}
			if ws.Res.State != prevState(ww, i) {
				return true, violation("C13", "panic-changes-state", "", "panic changed the device state from %+v to %+v", prevState(ww, i), ws.Res.State)
			}
		case -2:
			if len(out) != 0 {
				return true, violation("C13", "panic-release-emits", "", "releasing the panic key emitted %s", fmtMsgs(out))
			}
		default:
			bs := &wb.Steps[origin[i]]
			same := sameMsgs(out, bs.Res.Out)
			if !same && ws.Model.Kind == "panic" && len(out) == len(bs.Res.Out) {
				// a panic that both histories contain: the order within a burst is nobody's promise (what a panic sends
				// beyond the 129 messages may come out of a map walk)
				same = sameMsgSet(out, bs.Res.Out)
			}
			if panicSeen && ws.Model.Kind == "note-press" {
				laterSamePitch = true // a press after the panic (counted as the non-trivial continuation)
			}
			isHeldRelease := ws.Step.T == "key" && ws.Step.Val == 0 && heldAtPanic[PK{ws.Step.SK(), ws.Step.Code}]
			if isHeldRelease {
				delete(heldAtPanic, PK{ws.Step.SK(), ws.Step.Code})
				if !same && len(out) != 0 {
					return true, violation("C13", "held-key-release", c.D.Mode,
						"%s: key was held across the panic; its release emitted %s, without the panic it emits %s (at most that redundant Note Off is allowed)",
						describeStep(i, ws), fmtMsgs(out), fmtMsgs(bs.Res.Out))
				}
			} else if !same {
				return true, violation("C13", "not-as-if-no-panic", c.D.Mode+"/"+ws.Model.Kind,
					"%s emitted %s; the same history without the panic emits %s here", describeStep(i, ws), fmtMsgs(out), fmtMsgs(bs.Res.Out))
			}
			if ws.Res.State.Octave != bs.Res.State.Octave || ws.Res.State.Semitone != bs.Res.State.Semitone ||
				ws.Res.State.Channel != bs.Res.State.Channel || ws.Res.State.Mapping != bs.Res.State.Mapping {
				return true, violation("C13", "state-differs", "", "%s: state %+v, without the panic %+v", describeStep(i, ws), ws.Res.State, bs.Res.State)
			}
		}
		if ws.KeysDownAfter == 0 && len(rx.Sounding) > 0 {
			return true, violation("C13", "quiescent-but-sounding", c.D.Mode, "no key held after %s but %v still sounding", describeStep(i, ws), rx.SoundingList())
		}
	}
	for _, m := range ww.Run.Tail {
		rx.Feed(m)
	}
	if len(rx.Sounding) > 0 {
		return true, violation("C13", "disconnect-leaves-sounding", c.D.Mode, "after disconnect %v still sounding", rx.SoundingList())
	}
	classifyIf(nontrivialHeld, "panic with keys held")
	classifyIf(c.Hold > 0, "panic key held for a while")
	classify("mode " + c.D.Mode)
	return nontrivialHeld && laterSamePitch, nil
}

// checkPanicBurst: ch is the channel the device itself reported (State()) right before the panic: "the device's current
// channel" also in histories for which the reference model has no opinion (a third action pressed while a pair is held).
func checkPanicBurst(i int, ws *walkStep, ch int) *Violation {
	out := ws.Res.Out
	seenOff := [128]bool{}
	cc := false
	for _, m := range out {
		switch {
		case len(m) == 3 && m[0] == 0xB0|byte(ch) && m[1] == 123:
			cc = true
		case len(m) == 3 && isNoteOff(m) && int(m[0]&0x0f) == ch && m[1] < 128:
			seenOff[m[1]] = true
		case len(m) == 3 && isNoteOff(m):
			// a Note Off elsewhere (a held key that sounds on another channel through its offset or an earlier channel
			// change) starts no sound: the statement asks for the burst on the current channel "and nothing that could start a
			// sound", not for nothing else
			classify("panic also sends Note Offs on other channels")
		case len(m) == 3 && m[0]&0xf0 == 0xB0 && (m[1] == 123 || m[1] == 120):
			// All Notes Off / All Sound Off, here or on another channel: silences, starts nothing
			classify("panic also sends further All Notes Off / All Sound Off messages")
		default:
			return violation("C13", "burst-content", "", "panic on channel %d emitted %x, which is neither All Notes Off / All Sound Off nor a Note Off: it is not part of the burst and could start a sound or change the receiver (%s)",
				ch+1, m, describeStep(i, ws))
		}
	}
	if !cc {
		return violation("C13", "burst-missing-all-notes-off", "", "panic on channel %d did not send CC 123 (%s)", ch+1, fmtMsgs(out))
	}
	for n := 0; n < 128; n++ {
		if !seenOff[n] {
			return violation("C13", "burst-missing-note-off", "", "panic on channel %d sent no Note Off for pitch %d (%d messages)", ch+1, n, len(out))
		}
	}
	return nil
}

func prevChannel(w *walk, i int) int {
	if i == 0 {
		return int(w.Run.Initial.Channel)
	}
	return int(w.Run.Steps[i-1].State.Channel)
}

func prevState(w *walk, i int) interface{} {
	if i == 0 {
		return w.Run.Initial
	}
	return w.Run.Steps[i-1].State
}

// pairHeldAt: both keys of some up/down pair are held just before step i.
func (m *Model) pairHeldAt(i int, w *walk) bool {
	mm := NewModel(w.Case.D)
	for j := 0; j < i; j++ {
		if s := w.Case.Steps[j]; s.T == "key" {
			mm.Key(s.SK(), s.Code, s.Val)
		}
	}
	return mm.CompletePairHeld()
}

// perKeySnapshot: the model's held note keys just before step i.
func (m *Model) perKeySnapshot(i int, w *walk) map[PK]heldNote {
	mm := NewModel(w.Case.D)
	for j := 0; j < i; j++ {
		s := w.Case.Steps[j]
		if s.T == "key" {
			mm.Key(s.SK(), s.Code, s.Val)
		}
	}
	out := map[PK]heldNote{}
	for k, v := range mm.perKey {
		out[k] = v
	}
	return out
}
