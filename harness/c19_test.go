package harness

import (
	"context"
	"fmt"
	"os"
	"path/filepath"
	"runtime"
	"strings"
	"sync"
	"sync/atomic"
	"testing"
	"time"

	"github.com/gethiox/HIDI/internal/pkg/midi/device/config"
	"pgregory.net/rapid"
)

// C19: the configuration watcher. Count-based oracle (sound whatever the timing):
//   - every notification is caused by one in-place write to a .toml file: total <= number of TOML writes;
//   - after a TOML write (or burst) at least one further notification arrives (bounded liveness, 10 s);
//   - after cancel a consumer that keeps receiving sees the stream end.

type c19Op struct {
	Kind  string `json:"kind"`          // "write" | "burst" | "sleep"
	How   string `json:"how,omitempty"` // write: "" = overwrite the first line in place, "truncate" = cut the file to 0 bytes, "append"
	Dir   int    `json:"dir"`
	File  string `json:"file"`
	N     int    `json:"n"`     // burst size / sleep ms
	Delay int    `json:"delay"` // consumer delay in ms before it starts reading after this op
}

type C19Case struct {
	Ops        []c19Op `json:"ops"`
	CancelWith string  `json:"cancel_with"` // "idle" | "pending" (a notification is waiting unread) | "mid-burst"
}

// (a name is a sequence of bytes: hidden files, blanks, several dots, non-ASCII letters in UTF-8 and in a legacy 8-bit encoding)
var c19Files = []string{"a.toml", "device.toml", "notes.txt", "a.toml.bak", "a.toml~", "mytoml", "x.tom", "toml", "atoml", "README",
	".pad.toml", "._pad.toml", ".toml", "my pad.toml", "x.y.toml", "пульт.toml", "Ger\xe4t.toml", ".toml.swp", "a.toml.toml",
	// configurations are loaded from sub-directories too (the loader walks the whole tree): a file there is a file in the directory
	"mine/nested.toml", "mine/deeper/still.toml", "mine/notes.txt",
	// ... whatever the sub-directory is called (the loader skips none): hidden, with a blank, not UTF-8, looking like a file
	".mine/hidden.toml", ".config/pads/deep.toml", "old stuff/b.toml", "fr\xfcher/c.toml", "backup.toml/d.toml", ".mine/notes.txt"}

func c19IsTOML(name string) bool { return strings.HasSuffix(name, ".toml") }

const c19Live = 10 * time.Second

func c19Write(root string, dir int, file string, seq int, how string) error {
	path := filepath.Join(root, c12Dirs[dir], file)
	if how == "truncate" { // the file is emptied in place (one modification event); an empty file is written to instead
		if st, err := os.Stat(path); err == nil && st.Size() > 0 {
			return os.Truncate(path, 0)
		}
	}
	flags := os.O_WRONLY
	if how == "append" {
		flags |= os.O_APPEND
	}
	f, err := os.OpenFile(path, flags, 0)
	if err != nil {
		return err
	}
	if how == "append" {
		_, err = f.Write([]byte(fmt.Sprintf("# %06d\n", seq)))
	} else {
		_, err = f.WriteAt([]byte(fmt.Sprintf("# %06d\n", seq)), 0) // one write(2), in place, no truncation
	}
	f.Close()
	return err
}

func checkC19(c C19Case) (nontrivial bool, v *Violation) {
	root, err := os.MkdirTemp(".", "c19-")
	if err != nil {
		return false, violation("C19", "harness", "", "mkdtemp: %v", err)
	}
	root, _ = filepath.Abs(root)
	defer os.RemoveAll(root)
	for _, d := range c12Dirs {
		if err := os.MkdirAll(filepath.Join(root, d), 0o755); err != nil {
			return false, violation("C19", "harness", "", "mkdir: %v", err)
		}
		for _, f := range append([]string{"warmup.toml"}, c19Files...) {
			_ = os.MkdirAll(filepath.Dir(filepath.Join(root, d, f)), 0o755)
			if err := os.WriteFile(filepath.Join(root, d, f), []byte("# 000000\n# padding padding padding\n"), 0o644); err != nil {
				return false, violation("C19", "harness", "", "create: %v", err)
			}
		}
	}
	// The watcher adds its four relative directory names asynchronously; the working directory stays
	// inside the fixture for the whole case (cases run one at a time in this process).
	herr := inDir(root, func() { nontrivial, v = runC19(root, c) })
	if herr != nil {
		return false, violation("C19", "harness", "", "chdir: %v", herr)
	}
	return nontrivial, v
}

func runC19(root string, c C19Case) (nontrivial bool, v *Violation) {
	ctx, cancel := context.WithCancel(context.Background())
	defer cancel()
	var ch <-chan bool
	if pv := guard("C19", "panic", func() *Violation { ch = config.DetectDeviceConfigChanges(ctx); return nil }); pv != nil {
		return false, pv
	}
	// once the call has returned the directories are being watched: the very first modification counts like any other
	// (the manager loads the configurations right after this call; a change made after that load and before the watches
	// existed would be neither loaded nor noticed)
	total, tomlWrites, seq := 0, 0, 0
	closed := false
	// recv waits up to d for one notification.
	recv := func(d time.Duration) bool {
		if closed {
			return false
		}
		select {
		case _, ok := <-ch:
			if !ok {
				closed = true
				return false
			}
			total++
			return true
		case <-time.After(d):
			return false
		}
	}
	drain := func(quiet time.Duration) {
		for recv(quiet) {
		}
	}
	var otherWritten []string
	floodSeen := false
	bound := func(where string) *Violation {
		if floodSeen {
			return nil // after an overflow of the kernel queue a watcher has to notify without knowing what was lost
		}
		if total > tomlWrites {
			return violation("C19", "spurious-notification", "", "%s: %d notifications received but only %d in-place writes to .toml files were made; other files written so far: %v",
				where, total, tomlWrites, otherWritten)
		}
		return nil
	}
	write := func(dir int, file string, how string) *Violation {
		seq++
		if err := c19Write(root, dir, file, seq, how); err != nil {
			return violation("C19", "harness", "", "write: %v", err)
		}
		if c19IsTOML(file) {
			tomlWrites++
		} else {
			otherWritten = append(otherWritten, c12Dirs[dir]+"/"+file)
		}
		return nil
	}
	// first a single modification in every directory, starting the moment the call has returned
	for d := range c12Dirs {
		if wv := write(d, "warmup.toml", ""); wv != nil {
			return false, wv
		}
		ready := recv(c19Live)
		if closed {
			return true, violation("C19", "stream-ended-early", "", "the notification stream ended although the context is still live")
		}
		if !ready {
			return true, violation("C19", "missed-notification", "first-write", "the first in-place write to %s/warmup.toml after DetectDeviceConfigChanges had returned produced no notification within %v", c12Dirs[d], c19Live)
		}
		drain(60 * time.Millisecond)
	}
	if bv := bound("after warm-up"); bv != nil {
		return true, bv
	}
	for i, op := range c.Ops {
		before := total
		sawTOML := false
		switch op.Kind {
		case "write":
			if wv := write(op.Dir, op.File, op.How); wv != nil {
				return false, wv
			}
			sawTOML = c19IsTOML(op.File)
			classifyIf(op.How != "", "write by "+op.How)
		case "burst":
			for k := 0; k < op.N; k++ {
				file := op.File
				if k%3 == 2 {
					file = c19Files[(k+op.Dir)%len(c19Files)]
				}
				if wv := write((op.Dir+k)%4, file, ""); wv != nil {
					return false, wv
				}
				sawTOML = sawTOML || c19IsTOML(file)
			}
		case "recreate":
			// the sub-directory "mine" of a configuration directory is removed and made again under the same name (a
			// configuration pack replaced, a checkout, rsync --delete), with its files; then one of them is modified in place.
			// The watcher learns of the new directory from an event of its own, so the modification is repeated every 100 ms
			// until it is noticed - but noticed it must be
			sub := filepath.Join(root, c12Dirs[op.Dir], "mine")
			_ = os.RemoveAll(sub)
			for _, f := range []string{"mine/nested.toml", "mine/deeper/still.toml", "mine/notes.txt"} {
				pth := filepath.Join(root, c12Dirs[op.Dir], f)
				_ = os.MkdirAll(filepath.Dir(pth), 0o755)
				if err := os.WriteFile(pth, []byte("# 000000\n# padding padding padding\n"), 0o644); err != nil {
					return false, violation("C19", "harness", "", "re-create: %v", err)
				}
				if c19IsTOML(f) {
					tomlWrites++ // (written while it was created: that may or may not be noticed)
				}
			}
			noticed := false
			deadline := time.Now().Add(c19Live)
			for !noticed && time.Now().Before(deadline) && !closed {
				if wv := write(op.Dir, "mine/nested.toml", ""); wv != nil {
					return false, wv
				}
				noticed = recv(100 * time.Millisecond)
			}
			if closed {
				return true, violation("C19", "stream-ended-early", "", "the notification stream ended although the context is still live")
			}
			if !noticed {
				return true, violation("C19", "missed-notification", "recreated-directory", "op %d: %s/mine was removed and made again; in-place writes to mine/nested.toml every 100 ms for %v produced no notification", i, c12Dirs[op.Dir], c19Live)
			}
			// ... and so must a modification one level further down: the tree arrived as a whole (cp -r, a checkout, an unpacked
			// archive), its sub-directories were there before the watcher could hear of the top one
			noticed = false
			deadline = time.Now().Add(c19Live)
			for !noticed && time.Now().Before(deadline) && !closed {
				if wv := write(op.Dir, "mine/deeper/still.toml", ""); wv != nil {
					return false, wv
				}
				noticed = recv(100 * time.Millisecond)
			}
			if closed {
				return true, violation("C19", "stream-ended-early", "", "the notification stream ended although the context is still live")
			}
			if !noticed {
				return true, violation("C19", "missed-notification", "recreated-tree", "op %d: %s/mine was removed and made again together with its sub-directory; writes to mine/nested.toml are noticed, in-place writes to mine/deeper/still.toml every 100 ms for %v produced no notification", i, c12Dirs[op.Dir], c19Live)
			}
			nontrivial = true
			classify("sub-directory removed and made again")
		case "series":
			// a long series of modifications that stays below the kernel's queue limit, alternating between two .toml files so
			// that the kernel merges nothing, while the consumer is busy (it reads again only after the series): however many
			// events piled up - 255, 256, 257, 65536 ... - the consumer is owed a notification
			for k := 0; k < op.N; k++ {
				file := op.File
				if k%2 == 1 {
					file = "device.toml"
				}
				if wv := write(op.Dir, file, ""); wv != nil {
					return false, wv
				}
			}
			sawTOML = true
			classify("series of .toml modifications while the consumer is busy")
		case "flood":
			// more modifications than the kernel's event queue holds (fs.inotify.max_queued_events, 16384 here) while the
			// consumer is not reading: events get lost in the kernel - what must survive is the watcher itself
			if c19IsTOML(op.File) {
				for k := 0; k < op.N; k++ {
					file := op.File
					if k%2 == 1 {
						file = "device.toml"
					}
					if wv := write(op.Dir, file, ""); wv != nil {
						return false, wv
					}
				}
			} else {
				// a flood of writes to other files - four writers with the files held open, faster than any watcher can read -
				// and one single modification of a .toml file in the middle of it: the kernel may drop exactly that event; after
				// an overflow the watcher cannot know what was lost and has to assume a change
				var wg sync.WaitGroup
				var done int64
				for wtr := 0; wtr < 4; wtr++ {
					wg.Add(1)
					go func(wtr int) {
						defer wg.Done()
						f, err := os.OpenFile(filepath.Join(root, c12Dirs[op.Dir], []string{op.File, "README", "a.toml~", "x.tom"}[wtr]), os.O_WRONLY, 0)
						if err != nil {
							return
						}
						defer f.Close()
						for k := 0; k < op.N; k++ {
							f.WriteAt([]byte("# flood\n"), 0)
							atomic.AddInt64(&done, 1)
						}
					}(wtr)
				}
				for atomic.LoadInt64(&done) < int64(2*op.N) {
					runtime.Gosched()
				}
				if wv := write(op.Dir, "a.toml", ""); wv != nil {
					return false, wv
				}
				wg.Wait()
				otherWritten = append(otherWritten, "(flood)")
			}
			sawTOML = true
			floodSeen = true
			classify("flood beyond the kernel's event queue")
			classifyIf(!c19IsTOML(op.File), "flood of other files around one .toml modification")
		case "sleep":
			time.Sleep(time.Duration(op.N) * time.Millisecond)
		}
		if op.Delay > 0 {
			time.Sleep(time.Duration(op.Delay) * time.Millisecond) // consumer reads late: the watcher blocks on its send
			classify("late consumer")
		}
		if sawTOML {
			nontrivial = true
			deadline := time.Now().Add(c19Live)
			for total == before && time.Now().Before(deadline) && !closed {
				recv(100 * time.Millisecond)
			}
			if closed {
				return true, violation("C19", "stream-ended-early", "", "the notification stream ended although the context is still live")
			}
			if total == before {
				return true, violation("C19", "missed-notification", op.Kind, "op %d (%s %s/%s x%d): no notification within %v after an in-place write to a .toml file",
					i, op.Kind, c12Dirs[op.Dir], op.File, op.N, c19Live)
			}
		}
		drain(40 * time.Millisecond)
		if bv := bound(fmt.Sprintf("after op %d (%s %s/%s)", i, op.Kind, c12Dirs[op.Dir], op.File)); bv != nil {
			return true, bv
		}
		if !c19IsTOML(op.File) && op.Kind != "sleep" {
			classify("write to a non-TOML file: " + op.File)
		}
	}
	drain(150 * time.Millisecond)
	if bv := bound("at quiescence"); bv != nil {
		return true, bv
	}
	// shut down
	stop := make(chan struct{})
	switch c.CancelWith {
	case "pending":
		if wv := write(0, "a.toml", ""); wv != nil {
			return false, wv
		}
		time.Sleep(30 * time.Millisecond)
	case "mid-burst":
		go func() {
			for k := 0; ; k++ {
				select {
				case <-stop:
					return
				default:
				}
				f, err := os.OpenFile(filepath.Join(root, c12Dirs[k%4], "device.toml"), os.O_WRONLY, 0)
				if err == nil {
					f.WriteAt([]byte("# burst\n"), 0)
					f.Close()
				}
			}
		}()
		time.Sleep(20 * time.Millisecond)
	}
	classify("cancel: " + c.CancelWith)
	cancel()
	deadline := time.Now().Add(c19Live)
	for !closed && time.Now().Before(deadline) {
		recv(200 * time.Millisecond)
	}
	close(stop)
	if !closed {
		return true, violation("C19", "stream-not-closed", c.CancelWith, "the context was cancelled (%s) and the consumer kept receiving for %v, but the notification stream did not end", c.CancelWith, c19Live)
	}
	if c.CancelWith != "mid-burst" {
		if bv := bound("after shutdown"); bv != nil {
			return true, bv
		}
	}
	return nontrivial, nil
}

func genC19(t *rapid.T) C19Case {
	var c C19Case
	n := rapid.IntRange(1, 8).Draw(t, "ops")
	for i := 0; i < n; i++ {
		op := c19Op{Dir: rapid.IntRange(0, 3).Draw(t, "dir")}
		switch k := rapid.IntRange(0, 9).Draw(t, "kind"); {
		case k < 5:
			op.Kind = "write"
			op.File = rapid.SampledFrom(c19Files).Draw(t, "file")
			op.How = rapid.SampledFrom([]string{"", "", "truncate", "append"}).Draw(t, "how")
		case k < 8:
			op.Kind = "burst"
			op.File = rapid.SampledFrom(c19Files).Draw(t, "file")
			op.N = rapid.IntRange(1, 20).Draw(t, "burst")
		case k == 8 && rapid.IntRange(0, 2).Draw(t, "recreate") == 0:
			op.Kind = "recreate"
			op.File = "mine/nested.toml"
		case k == 8:
			op.Kind = "series"
			op.File = "a.toml"
			op.N = rapid.SampledFrom([]int{64, 127, 128, 129, 255, 256, 256, 257, 511, 512, 513, 768, 1024, 2048, 4096}).Draw(t, "series")
			if rapid.Bool().Draw(t, "offByFew") {
				op.N += rapid.IntRange(-2, 2).Draw(t, "few")
			}
		default:
			op.Kind = "sleep"
			op.File = ""
			op.N = rapid.IntRange(1, 50).Draw(t, "ms")
		}
		if i == 0 && rapid.IntRange(0, 9).Draw(t, "flood") == 0 {
			// once per case at most, and followed by an isolated write: after the flood the watcher must still notice it
			op = c19Op{Kind: "flood", Dir: op.Dir, File: rapid.SampledFrom([]string{"a.toml", "notes.txt"}).Draw(t, "floodFile"), N: rapid.IntRange(17000, 40000).Draw(t, "floodN")}
			c.Ops = append(c.Ops, op, c19Op{Kind: "write", Dir: rapid.IntRange(0, 3).Draw(t, "afterFloodDir"), File: "a.toml"})
			continue
		}
		if rapid.IntRange(0, 3).Draw(t, "late") == 0 {
			op.Delay = rapid.IntRange(1, 200).Draw(t, "delay")
		}
		c.Ops = append(c.Ops, op)
	}
	c.CancelWith = rapid.SampledFrom([]string{"idle", "pending", "mid-burst"}).Draw(t, "cancel")
	return c
}

func TestC19(t *testing.T) { ReplayOrRapid(t, NewRun(t, "C19"), checkC19, genC19) }

func (c C19Case) Sample() interface{} {
	var ops []string
	for _, o := range c.Ops {
		s := ""
		switch o.Kind {
		case "write":
			s = fmt.Sprintf("write %s/%s %s", c12Dirs[o.Dir][len("hidi-config/"):], o.File, o.How)
		case "flood":
			s = fmt.Sprintf("flood x%d on %s/{a,device}.toml", o.N, c12Dirs[o.Dir][len("hidi-config/"):])
		case "recreate":
			s = fmt.Sprintf("%s/mine removed and made again, then modified", c12Dirs[o.Dir][len("hidi-config/"):])
		case "series":
			s = fmt.Sprintf("series x%d alternating %s/{a,device}.toml", o.N, c12Dirs[o.Dir][len("hidi-config/"):])
		case "burst":
			s = fmt.Sprintf("burst x%d from %s/%s", o.N, c12Dirs[o.Dir][len("hidi-config/"):], o.File)
		default:
			s = fmt.Sprintf("pause %dms", o.N)
		}
		if o.Delay > 0 {
			s += fmt.Sprintf(" (consumer %dms late)", o.Delay)
		}
		ops = append(ops, s)
	}
	return map[string]interface{}{"ops": ops, "cancel": c.CancelWith}
}
