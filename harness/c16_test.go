//go:build verif

package harness

import (
	"fmt"
	"os"
	"os/exec"
	"path/filepath"
	"runtime"
	"sort"
	"strings"
	"sync"
	"sync/atomic"
	"testing"
	"time"

	"github.com/gethiox/HIDI/internal/pkg/input"
	"github.com/gethiox/HIDI/internal/pkg/midi"
	"github.com/gethiox/HIDI/internal/pkg/midi/device/config"
	"github.com/gethiox/HIDI/internal/pkg/utils"
	"github.com/holoplot/go-evdev"
	"pgregory.net/rapid"
)

// C16: device lifecycle. N real devices run concurrently (real LED loops against one fake OpenRGB server,
// MIDI-in from one real fan-out, one shared DeviceConfig value); the binary is built with -race.

type C16Case struct {
	D     *Desc       `json:"desc"`
	LEDs  []string    `json:"leds"`
	Hist  [][]LedStep `json:"hist"`  // per device: key events only; keys may stay held at the end
	Midi  [][]byte    `json:"midi"`  // MIDI-in traffic fed to the fan-out while the devices run
	Phase []string    `json:"phase"` // per device: when its event stream ends
	Delay []int       `json:"delay"` // per device: extra delay in ms used by the phase
	// NoServer: no OpenRGB server is reachable, every LED goroutine stays in its connect/retry phase. Device 0 stays
	// connected for 1.6 s; the others end early and must not have to wait for it.
	NoServer bool `json:"no_server,omitempty"`
	// Server: state of the OpenRGB server when NoServer is false: "" = lists every device's keyboard, "empty" = reports
	// zero controllers, "foreign" = lists controllers but none of these devices, "mute" = accepts the connection and never
	// answers. In the last three the LED goroutines never get past their discovery phase.
	Server string `json:"server,omitempty"`
	// SlowOutUs > 0: the MIDI output queue of every device has the application's capacity (8) and its reader takes this many
	// microseconds per message (a MIDI port at hardware speed): a panic burst of 129 messages then spans several LED refresh cycles
	SlowOutUs int `json:"slow_out_us,omitempty"`
	// Busy: per device, how long (ms) the reader of its MIDI output is busy when its event stream ends (0 = reads all the time)
	Busy []int `json:"busy,omitempty"`
	// Logs: the devices run with their logging switched on (the application's default)
	Logs bool `json:"logs,omitempty"`
	// LongStay (with Server "empty" / "foreign"): device 0 stays connected for 3 s - past the moment its LED goroutine has
	// given up looking for a controller and returned - while MIDI input keeps arriving; before its stream ends the MIDI
	// input must still be flowing (a connected device that stops reading its input cuts every other device off and blocks
	// the attaching of new ones)
	LongStay bool `json:"long_stay,omitempty"`
}

var raceLogOffsets = map[string]int64{}

// newRaceReports returns the race reports written since the last call that involve HIDI code.
func newRaceReports() []string {
	prefix := ""
	for _, kv := range strings.Fields(os.Getenv("GORACE")) {
		if strings.HasPrefix(kv, "log_path=") {
			prefix = strings.TrimPrefix(kv, "log_path=")
		}
	}
	if prefix == "" {
		return nil
	}
	files, _ := filepath.Glob(prefix + ".*")
	var out []string
	for _, f := range files {
		data, err := os.ReadFile(f)
		if err != nil {
			continue
		}
		off := raceLogOffsets[f]
		if int64(len(data)) <= off {
			continue
		}
		chunk := string(data[off:])
		raceLogOffsets[f] = int64(len(data))
		for _, rep := range strings.Split(chunk, "==================") {
			if !strings.Contains(rep, "DATA RACE") {
				continue
			}
			if strings.Contains(rep, "github.com/gethiox/HIDI/internal/") || strings.Contains(rep, "/internal/pkg/") {
				out = append(out, strings.TrimSpace(rep))
			}
		}
	}
	return out
}

func raceSignature(rep string) string {
	var fns []string
	for _, l := range strings.Split(rep, "\n") {
		l = strings.TrimSpace(l)
		if strings.HasPrefix(l, "github.com/gethiox/HIDI/internal/") {
			fn := strings.TrimPrefix(l, "github.com/gethiox/HIDI/internal/pkg/")
			if i := strings.Index(fn, "("); i > 0 && !strings.HasPrefix(fn[i:], "(*") {
				fn = fn[:i]
			}
			if i := strings.LastIndex(fn, "()"); i > 0 {
				fn = fn[:i]
			}
			fns = append(fns, fn)
			if len(fns) == 1 {
				continue
			}
		}
		if strings.HasPrefix(l, "Previous ") && len(fns) > 1 {
			fns = fns[:1]
		}
	}
	sort.Strings(fns)
	if len(fns) > 2 {
		fns = fns[:2]
	}
	return strings.Join(fns, "+")
}

func flatten(ms [][]byte) []string {
	out := make([]string, len(ms))
	for i, m := range ms {
		out[i] = fmt.Sprintf("%x", m)
	}
	return out
}

func (c *C16Case) busyFor(i int) int {
	if c.NoServer || c.SlowOutUs > 0 || c.LongStay || i >= len(c.Busy) {
		return 0
	}
	return c.Busy[i]
}

// stallWatch measures how late this process gets the CPU while a case runs: a goroutine sleeps 5 ms at a time and records
// the largest overshoot. A verdict that rests on a duration of the order of a second is only drawn when the machine was not
// that late itself (a time limit that is hit on a starved machine is inconclusive, never a violation).
type stallWatch struct {
	stop chan struct{}
	done chan struct{}
	max  int64 // ns
}

func newStallWatch() *stallWatch {
	w := &stallWatch{stop: make(chan struct{}), done: make(chan struct{})}
	go func() {
		defer close(w.done)
		for {
			t0 := time.Now()
			select {
			case <-w.stop:
				return
			case <-time.After(5 * time.Millisecond):
			}
			if over := int64(time.Since(t0) - 5*time.Millisecond); over > atomic.LoadInt64(&w.max) {
				atomic.StoreInt64(&w.max, over)
			}
		}
	}()
	return w
}

func (w *stallWatch) Stop() time.Duration {
	close(w.stop)
	<-w.done
	return time.Duration(atomic.LoadInt64(&w.max))
}

func checkC16(c C16Case) (nontrivial bool, v *Violation) {
	sw := newStallWatch()
	lateness := time.Duration(-1)
	late := func() time.Duration {
		if lateness < 0 {
			lateness = sw.Stop()
		}
		return lateness
	}
	defer late()
	ledDeviceNoLogs = !c.Logs
	defer func() { ledDeviceNoLogs = true }()
	classifyIf(c.Logs, "devices with logging on")
	classifyIf(len(c.D.Exit) > 0, "worlds with an exit sequence")
	n := len(c.Hist)
	events := map[int]string{}
	var ctrls []OrgbController
	for i := 0; i < n; i++ {
		events[i] = fmt.Sprintf("event%d", 5+i)
		ctrls = append(ctrls, OrgbController{Name: "Generic Keyboard", Type: 5, Location: fmt.Sprintf("HID: /dev/hidraw%d", i), LEDs: c.LEDs})
	}
	if err := BuildHidrawFixture(os.Getenv("VERIF_HIDRAW_FIXTURE"), events); err != nil {
		return false, violation("C16", "harness", "", "fixture: %v", err)
	}
	switch c.Server {
	case "empty":
		ctrls = nil
	case "foreign":
		ctrls = []OrgbController{otherController("motherboard", c.LEDs, 9), otherController("keyboard-no-hidraw", c.LEDs, 9), otherController("mouse", c.LEDs, 9)}
	}
	srv, err := NewOrgbServer(ctrls)
	if err != nil {
		return false, violation("C16", "harness", "", "fake OpenRGB server: %v", err)
	}
	srv.Mute = c.Server == "mute"
	port := srv.Port
	if c.NoServer {
		srv.Close() // the port stays closed: connection refused, the LED goroutines keep retrying
	} else {
		defer srv.Close()
	}
	cfg, _, pv := parseDesc("C16", c.D)
	if pv != nil {
		return false, pv
	}
	shared := config.DeviceConfig{ConfigFile: "verif.toml", ConfigType: "user", Config: cfg} // one value, shared maps
	_, cfgBefore := hashJSON(viewFromConfig(&cfg))
	newRaceReports() // discard anything older
	curRun.Inflight(c)
	defer curRun.InflightDone()

	var fed int64 // MIDI-input messages taken over by the fan-out so far
	midiSrc := make(chan midi.Event, 8)
	fan := utils.NewDynamicFanOut[midi.Event](midiSrc)
	stopMidi := make(chan struct{})
	var midiWG sync.WaitGroup
	midiWG.Add(1)
	go func() {
		defer midiWG.Done()
		for i := 0; ; i++ {
			if len(c.Midi) == 0 {
				return
			}
			select {
			case midiSrc <- midi.Event(c.Midi[i%len(c.Midi)]):
				atomic.AddInt64(&fed, 1)
			case <-stopMidi:
				return
			}
			if i%4 == 3 {
				time.Sleep(time.Millisecond)
			}
		}
	}()

	type devRes struct {
		out        [][]byte
		returnedIn time.Duration
		problem    *Violation
		framesSeen bool
		heldAtCut  bool
		busy       bool
	}
	res := make([]devRes, n)
	var wg sync.WaitGroup
	for i := 0; i < n; i++ {
		wg.Add(1)
		go func(i int) {
			defer wg.Done()
			id, ch, err := fan.SpawnOutput()
			if err != nil {
				res[i].problem = violation("C16", "harness", "", "SpawnOutput: %v", err)
				return
			}
			despawned := false
			defer func() {
				if !despawned { // a problem path: the fan-out must not stay blocked behind this device's channel
					fan.DespawnOutput(id)
				}
			}()
			outCap := 65536
			if c.SlowOutUs > 0 {
				outCap = 8
			}
			ld := startLedDeviceCap(shared, c.D, events[i], i, port, ch, outCap)
			var slowOut [][]byte
			slowDone := make(chan struct{})
			if c.SlowOutUs > 0 {
				go func() {
					defer close(slowDone)
					for m := range ld.out {
						slowOut = append(slowOut, append([]byte(nil), m...))
						time.Sleep(time.Duration(c.SlowOutUs) * time.Microsecond)
					}
				}()
			}
			phase := c.Phase[i]
			if c.Server != "" && !c.NoServer {
				phase = "discovery-" + c.Server
			}
			if c.NoServer {
				phase = "no-server-early"
				if i == 0 {
					phase = "no-server-long"
				}
			}
			if c.LongStay && i == 0 && (c.Server == "empty" || c.Server == "foreign") && !c.NoServer {
				phase = "led-gave-up"
			}
			switch phase {
			case "no-server-early":
				time.Sleep(time.Duration(c.Delay[i]%300) * time.Millisecond)
			case "no-server-long":
				time.Sleep(50 * time.Millisecond)
			case "discovery-empty", "discovery-foreign", "discovery-mute":
				time.Sleep(time.Duration(300+c.Delay[i]%900) * time.Millisecond) // connected (first attempt after 250 ms), asking for its controller
			case "led-gave-up":
				time.Sleep(3 * time.Second) // first attempt after 250 ms, 2 s of looking for the controller, then the LED goroutine returns
			case "before-connect":
				time.Sleep(time.Duration(c.Delay[i]%200) * time.Millisecond)
			case "during-discovery":
				time.Sleep(time.Duration(260+c.Delay[i]%230) * time.Millisecond)
			default: // wait for the LED loop to be past discovery (>= 1 frame)
				deadline := time.Now().Add(12 * time.Second)
				for srv.Last(i) == nil && time.Now().Before(deadline) {
					time.Sleep(5 * time.Millisecond)
				}
				res[i].framesSeen = srv.Last(i) != nil
			}
			m := NewModel(c.D)
			for _, s := range c.Hist[i] {
				if s.T == "abs" {
					if err := ld.abs(s.Code, s.Val); err != nil {
						res[i].problem = violation("C16", "stuck", "", "device %d: %v\n%s", i, err, firstLines(allStacks(), 60))
						return
					}
					continue
				}
				m.Key("", s.Code, s.Val)
				if err := ld.key(s.Code, s.Val); err != nil {
					res[i].problem = violation("C16", "stuck", "", "device %d: %v\n%s", i, err, firstLines(allStacks(), 60))
					return
				}
				if phase == "between-frames" {
					time.Sleep(time.Duration(c.Delay[i]%7) * time.Millisecond)
				}
			}
			res[i].heldAtCut = len(m.perKey) > 0
			if phase == "running" {
				time.Sleep(time.Duration(c.Delay[i]%40) * time.Millisecond)
			}
			if phase == "no-server-long" {
				time.Sleep(1600 * time.Millisecond)
			}
			if phase == "led-gave-up" && len(c.Midi) > 0 {
				// progress-based: the input counts as stalled only if not a single message gets through for 6 s
				before := atomic.LoadInt64(&fed)
				for deadline := time.Now().Add(6 * time.Second); atomic.LoadInt64(&fed) == before && time.Now().Before(deadline); {
					time.Sleep(10 * time.Millisecond)
				}
				if atomic.LoadInt64(&fed) == before {
					res[i].problem = violation("C16", "midi-input-stalled", "led-gave-up", "device %d is connected (its LED goroutine found no controller on the server and has returned), MIDI input keeps arriving, but for 6 s not one message was taken over by the fan-out (%d so far): a connected device has stopped reading its MIDI input, every other device is cut off and attaching a device blocks\n%s", i, before, firstLines(allStacks(), 80))
					return
				}
				classify("MIDI input still flowing 3 s after the LED goroutine gave up")
			}
			if busy := c.busyFor(i); busy > 0 {
				pre := drain(ld.out)
				b := busyDisconnect(ld.in, ld.out, ld.done, busy, 15*time.Second)
				switch {
				case b.Stuck:
					res[i].problem = violation("C16", "no-prompt-termination", "busy-receiver", "device %d: ProcessEvents had not returned 15 s after its event stream ended (the reader of its MIDI output was busy for the first %d ms only)\n%s", i, busy, firstLines(allStacks(), 100))
					return
				case b.Panic != "":
					res[i].problem = violation("C16", "panic", "", "device %d panicked: %s", i, b.Panic)
				case len(b.Late) > 0:
					res[i].problem = violation("C16", "background-activity-left", "emits-after-end", "device %d: %s emitted after ProcessEvents had returned (the reader of its MIDI output was busy for %d ms when the stream ended)", i, fmtMsgs(b.Late), busy)
				}
				res[i].returnedIn = b.ReturnedIn - time.Duration(busy)*time.Millisecond
				despawned = true
				if err := fan.DespawnOutput(id); err != nil {
					res[i].problem = violation("C16", "despawn", "", "device %d: %v", i, err)
				}
				res[i].out = append(pre, b.Tail...)
				res[i].busy = true
				return
			}
			t0 := time.Now()
			close(ld.in)
			select {
			case p := <-ld.done:
				if p != "" {
					res[i].problem = violation("C16", "panic", "", "device %d panicked: %s", i, p)
				}
			case <-time.After(15 * time.Second):
				res[i].problem = violation("C16", "no-prompt-termination", phase, "device %d (%s): ProcessEvents had not returned 15 s after its event stream ended\n%s", i, phase, firstLines(allStacks(), 100))
				return
			}
			res[i].returnedIn = time.Since(t0)
			despawned = true
			if err := fan.DespawnOutput(id); err != nil {
				res[i].problem = violation("C16", "despawn", "", "device %d: %v", i, err)
			}
			if c.SlowOutUs > 0 {
				close(ld.out) // processing has ended: nothing may be sent any more (a send now would panic and be reported)
				<-slowDone
				res[i].out = slowOut
			} else {
				res[i].out = drain(ld.out)
			}
		}(i)
	}
	wg.Wait()
	close(stopMidi)
	midiWG.Wait()
	close(midiSrc)
	for i := range res {
		if res[i].problem != nil {
			return true, res[i].problem
		}
	}
	// (0) the configuration value the devices share (maps by reference, as in the manager) is read-only for them
	if _, cfgAfter := hashJSON(viewFromConfig(&cfg)); string(cfgAfter) != string(cfgBefore) {
		return true, violation("C16", "shared-config-modified", "", "the DeviceConfig shared by the %d devices was modified while they ran: what one device does can change another's behaviour\nbefore: %s\nafter:  %s",
			n, clip(string(cfgBefore), 1500), clip(string(cfgAfter), 1500))
	}
	// (1) races
	time.Sleep(5 * time.Millisecond)
	if reps := newRaceReports(); len(reps) > 0 {
		return true, violation("C16", "data-race", raceSignature(reps[0]), "the race detector reported %d data race(s) in HIDI code while %d device(s) were processed; first report:\n%s", len(reps), n, clip(reps[0], 3500))
	}
	// (2) prompt termination
	for i := range res {
		if res[i].returnedIn > time.Second && res[i].returnedIn <= 3*time.Second && late() > 150*time.Millisecond {
			classify("a return time between 1 and 3 s on a machine that was itself late by more than 150 ms: inconclusive")
			continue
		}
		if c.Server != "" && c.Server != "mute" && !c.NoServer && res[i].returnedIn > time.Second {
			return true, violation("C16", "no-prompt-termination", "discovery-"+c.Server, "device %d of %d (OpenRGB server state %q, LED goroutine still looking for its controller): ProcessEvents needed %v to return after its event stream ended", i, n, c.Server, res[i].returnedIn)
		}
		if c.NoServer && res[i].returnedIn > time.Second {
			return true, violation("C16", "no-prompt-termination", "connect-phase", "device %d of %d (no OpenRGB server reachable, LED goroutines still in their connect phase): ProcessEvents needed %v to return after its event stream ended", i, n, res[i].returnedIn)
		}
		if res[i].returnedIn > 3*time.Second {
			return true, violation("C16", "no-prompt-termination", c.Phase[i], "device %d (%s): ProcessEvents needed %v to return after its event stream ended", i, c.Phase[i], res[i].returnedIn)
		}
		if res[i].framesSeen && res[i].heldAtCut {
			nontrivial = true
		}
		classifyIf(res[i].busy && res[i].heldAtCut, "stream ends with notes held while the MIDI output is not being read")
		classifyIf(c.SlowOutUs > 0, "MIDI output queue of 8 read at hardware speed")
		if c.Server != "" && !c.NoServer {
			classify("server state " + c.Server)
			nontrivial = true
		} else if c.NoServer {
			classify("no server reachable")
			if n > 1 {
				nontrivial = true
			}
		} else {
			classify("phase " + c.Phase[i])
		}
	}
	// (3) nothing of the device package keeps running
	deadline := time.Now().Add(3 * time.Second)
	leftover := ""
	for {
		leftover = ""
		for _, g := range strings.Split(allStacks(), "\n\n") {
			if strings.Contains(g, "internal/pkg/midi/device.") {
				leftover = g
				break
			}
		}
		if leftover == "" || time.Now().After(deadline) {
			break
		}
		time.Sleep(20 * time.Millisecond)
	}
	if leftover != "" {
		return true, violation("C16", "background-activity-left", "", "3 s after every device's processing ended a goroutine of the device package is still alive:\n%s", firstLines(leftover, 30))
	}
	// (4) no cross-talk: each device's output equals what the same history produces when it runs alone
	for i := range res {
		steps := make([]Step, len(c.Hist[i]))
		for k, s := range c.Hist[i] {
			steps[k] = Step{T: s.T, Code: s.Code, Val: s.Val}
		}
		solo := RunDevice(cfg, c.D, steps, EngineOpts{NoLogs: true})
		var want [][]byte
		for _, sr := range solo.Steps {
			want = append(want, sr.Out...)
		}
		got := res[i].out
		if len(got) < len(want) || strings.Join(flatten(got[:len(want)]), " ") != strings.Join(flatten(want), " ") {
			return true, violation("C16", "cross-talk", "", "device %d of %d: output differs from the same history run alone\nconcurrent: %s\nalone:      %s", i, n, fmtMsgs(got), fmtMsgs(want))
		}
		gt, wt := flatten(got[len(want):]), flatten(solo.Tail)
		sort.Strings(gt)
		sort.Strings(wt)
		if strings.Join(gt, " ") != strings.Join(wt, " ") {
			return true, violation("C16", "cross-talk", "cleanup", "device %d of %d: disconnect clean-up differs from the same history run alone\nconcurrent: %v\nalone:      %v", i, n, gt, wt)
		}
	}
	classify(fmt.Sprintf("%d concurrent devices", n))
	switch l := late(); {
	case l > 150*time.Millisecond:
		classify("machine late by more than 150 ms during the case (second-scale timing verdicts not drawn)")
	case l > 50*time.Millisecond:
		classify("machine late by 50-150 ms during the case")
	default:
		classify("machine late by less than 50 ms during the case")
	}
	runtime.GC()
	return nontrivial, nil
}

func genC16(t *rapid.T) C16Case {
	base := genC17(t) // description + LED layout
	c := C16Case{D: base.D, LEDs: base.LEDs}
	// two controller axes in every mapping: one relies on the sub-handler's default deadzone, one has its own entry
	for mi := range c.D.Mappings {
		m := &c.D.Mappings[mi]
		m.AnalogSubs = []AnalogSub{{Sub: "", Default: floatp(0.1)}}
		m.Axes = []AxisDef{{Code: 0, Type: "cc", CC: intp(20), Min: -128, Max: 127},
			{Code: 1, Type: "cc", CC: intp(21), CCNeg: intp(22), Min: 0, Max: 255, Center: boolp(true), Deadzone: floatp(0.05)}}
	}
	// half of the worlds have an exit sequence (one or two of the mapped keys), a quarter run with logging on
	if h0 := newHistState(c.D); rapid.Bool().Draw(t, "hasExit") {
		cand := append(append([]uint16{}, h0.noteKeys...), h0.actKeys...)
		perm := rapid.Permutation(indices(len(cand))).Draw(t, "exitKeys")
		for i := 0; i < len(perm) && i < rapid.IntRange(1, 2).Draw(t, "exitLen"); i++ {
			c.D.Exit = append(c.D.Exit, cand[perm[i]]&^(twinBit|nodeBit))
		}
	}
	c.Logs = rapid.IntRange(0, 3).Draw(t, "logs") == 0
	n := rapid.IntRange(1, 4).Draw(t, "devices")
	for i := 0; i < n; i++ {
		h := newHistState(c.D)
		steps := rapid.IntRange(0, 30).Draw(t, "histLen")
		keys := append(append([]uint16{}, h.noteKeys...), h.actKeys...)
		for len(h.steps) < steps && len(keys) > 0 {
			if len(h.noteKeys) > 0 && rapid.IntRange(0, 9).Draw(t, "noteBias") < 7 {
				h.toggle(h.noteKeys[rapid.IntRange(0, len(h.noteKeys)-1).Draw(t, "key")])
			} else {
				h.tap(keys[rapid.IntRange(0, len(keys)-1).Draw(t, "anyKey")])
			}
		}
		// end with at least one note key held in most cases
		if len(h.noteKeys) > 0 && rapid.IntRange(0, 9).Draw(t, "holdAtEnd") < 8 {
			k := h.noteKeys[rapid.IntRange(0, len(h.noteKeys)-1).Draw(t, "heldKey")]
			if !h.down[k] {
				h.toggle(k)
			}
		}
		// the way a session really ends: the exit sequence is pressed (the application then shuts down: the stream ends)
		if len(c.D.Exit) > 0 && rapid.IntRange(0, 2).Draw(t, "endWithExit") == 0 {
			for _, k := range c.D.Exit {
				if !h.down[k] {
					h.emitKey(k, 1)
				}
			}
		}
		var hs []LedStep
		for _, s := range boundTransposition(c.D, h.steps) {
			hs = append(hs, LedStep{T: "key", Code: s.Code, Val: s.Val})
			if rapid.IntRange(0, 4).Draw(t, "axisEvent") == 0 { // stick movement between the key events
				if rapid.Bool().Draw(t, "whichAxis") {
					hs = append(hs, LedStep{T: "abs", Code: 0, Val: int32(rapid.IntRange(-128, 127).Draw(t, "abs0"))})
				} else {
					hs = append(hs, LedStep{T: "abs", Code: 1, Val: int32(rapid.IntRange(0, 255).Draw(t, "abs1"))})
				}
			}
		}
		c.Hist = append(c.Hist, hs)
		busy := 0
		if rapid.IntRange(0, 4).Draw(t, "busyReceiver") == 0 {
			busy = rapid.IntRange(550, 900).Draw(t, "busyMs")
		}
		c.Busy = append(c.Busy, busy)
		c.Phase = append(c.Phase, rapid.SampledFrom([]string{"before-connect", "during-discovery", "running", "running", "between-frames", "after-key", "after-key"}).Draw(t, "phase"))
		c.Delay = append(c.Delay, rapid.IntRange(0, 1000).Draw(t, "delay"))
	}
	if rapid.IntRange(0, 3).Draw(t, "slowOut") == 0 {
		c.SlowOutUs = rapid.IntRange(100, 400).Draw(t, "slowOutUs")
	}
	c.NoServer = rapid.IntRange(0, 6).Draw(t, "noServer") == 0
	if !c.NoServer && rapid.IntRange(0, 5).Draw(t, "serverState") == 0 {
		c.Server = rapid.SampledFrom([]string{"empty", "foreign", "mute"}).Draw(t, "server")
		c.LongStay = c.Server != "mute" && rapid.Bool().Draw(t, "longStay")
	}
	for i := rapid.IntRange(0, 12).Draw(t, "midiMsgs"); i > 0; i-- {
		if rapid.IntRange(0, 2).Draw(t, "otherMessage") == 0 {
			c.Midi = append(c.Midi, otherMidiMessage(t))
			continue
		}
		st := byte(0x90)
		if rapid.Bool().Draw(t, "off") {
			st = 0x80
		}
		c.Midi = append(c.Midi, []byte{st | byte(rapid.IntRange(0, 15).Draw(t, "ch")), byte(rapid.IntRange(0, 127).Draw(t, "note")), byte(rapid.IntRange(0, 127).Draw(t, "vel"))})
	}
	return c
}

func TestC16(t *testing.T) {
	requireMount(t)
	ReplayOrRapid(t, NewRun(t, "C16"), checkC16, genC16)
}

func (c C16Case) Sample() interface{} {
	var devs []string
	for i, h := range c.Hist {
		devs = append(devs, fmt.Sprintf("device %d: stream ends %q (delay %d): %s", i, c.Phase[i], c.Delay[i], ledStepsSummary(h)))
	}
	return map[string]interface{}{"config": descSummary(c.D), "leds": len(c.LEDs), "devices": devs, "midi-in messages cycling": len(c.Midi)}
}

// ---- C16, stalled OpenRGB server: the server stops reading in the middle of the LED traffic ----
//
// Runs in a private network namespace with 4 KB TCP buffers (driver wrap "mountnetns"), so that a peer that stops
// reading blocks the LED goroutine's next writes within a second (with default buffers it takes minutes). The device
// keeps getting key events for a while, then its event stream ends: ProcessEvents must return promptly and nothing of
// the device package may stay behind - whatever the LED side is blocked in.
type C16StallCase struct {
	D          *Desc     `json:"desc"`
	LEDs       []string  `json:"leds"`
	Hist       []LedStep `json:"stall_hist"`
	StallAfter int       `json:"stall_after"` // frames the server takes before it hangs
	KeepMs     int       `json:"keep_ms"`     // how long key events keep coming after the server hung
}

func checkC16Stall(c C16StallCase) (nontrivial bool, v *Violation) {
	if c.StallAfter == 0 { // (corpus cases of the other C16 part land here as an empty case)
		return false, nil
	}
	if os.Getenv("VERIF_SMALL_TCP") == "" {
		return false, violation("C16", "harness", "", "this part needs the private network namespace of the driver (wrap mountnetns)")
	}
	if err := BuildHidrawFixture(os.Getenv("VERIF_HIDRAW_FIXTURE"), map[int]string{0: "event5"}); err != nil {
		return false, violation("C16", "harness", "", "fixture: %v", err)
	}
	// 40 LEDs: the controller description still fits one TCP segment with the small buffers (the client library reads it
	// with a single Read), a frame is ~180 bytes and the buffers are full within a second
	leds := append([]string{}, c.LEDs...)
	if len(leds) > 40 {
		leds = leds[:40]
	}
	for i := 0; len(leds) < 40; i++ {
		leds = append(leds, fmt.Sprintf("Underglow %d", i))
	}
	srv, err := NewOrgbServer([]OrgbController{{Name: "Generic Keyboard", Type: 5, Location: "HID: /dev/hidraw0", LEDs: leds}})
	if err != nil {
		return false, violation("C16", "harness", "", "fake OpenRGB server: %v", err)
	}
	srv.StallAfter = c.StallAfter
	defer srv.Close()
	cfg, _, pv := parseDesc("C16", c.D)
	if pv != nil {
		return false, pv
	}
	curRun.Inflight(c)
	defer curRun.InflightDone()
	ld := startLedDevice(config.DeviceConfig{ConfigFile: "verif.toml", ConfigType: "user", Config: cfg}, c.D, "event5", 0, srv.Port, make(chan midi.Event))
	// the server stops reading after StallAfter frames. A loop that repeats its frame every cycle gets there by itself within
	// a second; one that only sends when the picture changes needs the picture to change: after 1.5 s the keys of the history
	// are played until the server has seen enough frames
	waitStall := time.Now().Add(15 * time.Second)
	stalled := false
	for k := 0; !stalled && time.Now().Before(waitStall); k++ {
		wait := 20 * time.Millisecond
		if k == 0 {
			wait = 1500 * time.Millisecond
		}
		select {
		case <-srv.Stalled():
			stalled = true
		case p := <-ld.done:
			return true, violation("C16", "panic", "", "device ended unexpectedly: %s", p)
		case <-time.After(wait):
			if len(c.Hist) > 0 {
				if st := c.Hist[k%len(c.Hist)]; st.T == "key" {
					select {
					case ld.in <- &input.InputEvent{Source: handlerFor(&ld.inDev, ""), Event: evdev.InputEvent{Type: evdev.EV_KEY, Code: evdev.EvCode(st.Code), Value: st.Val}}:
					case <-time.After(2 * time.Second):
					}
				}
			}
		}
	}
	if !stalled {
		// not a verdict: this implementation sends too few frames for the server to hang in the middle of LED traffic
		classify("fewer frames than the stall point within 15 s: case not applicable")
		close(ld.in)
		select {
		case <-ld.done:
		case <-time.After(10 * time.Second):
			return true, violation("C16", "no-prompt-termination", "few-frames", "ProcessEvents had not returned 10 s after the device's event stream ended\n%s", firstLines(allStacks(), 120))
		}
		return false, nil
	}
	// key events keep coming; an event the device does not take within 2 s ends this phase (the verdict is about the end)
	deadline := time.Now().Add(time.Duration(c.KeepMs) * time.Millisecond)
	frozen := false
feed:
	for time.Now().Before(deadline) && len(c.Hist) > 0 {
		for _, s := range c.Hist {
			if s.T != "key" {
				continue
			}
			ev := &input.InputEvent{Source: handlerFor(&ld.inDev, ""), Event: evdev.InputEvent{Type: evdev.EV_KEY, Code: evdev.EvCode(s.Code), Value: s.Val}}
			select {
			case ld.in <- ev:
			case <-time.After(2 * time.Second):
				frozen = true
				break feed
			}
			time.Sleep(20 * time.Millisecond)
			if !time.Now().Before(deadline) {
				break feed
			}
		}
	}
	classifyIf(frozen, "device stopped taking key events while the server hung")
	t0 := time.Now()
	close(ld.in)
	select {
	case p := <-ld.done:
		if p != "" {
			return true, violation("C16", "panic", "", "device panicked: %s", p)
		}
	case <-time.After(10 * time.Second):
		return true, violation("C16", "no-prompt-termination", "server-stalled", "the OpenRGB server stopped reading after %d frames (connection open); ProcessEvents had not returned 10 s after the device's event stream ended (key events still taken before that: %v)\n%s",
			c.StallAfter, !frozen, firstLines(allStacks(), 120))
	}
	if d := time.Since(t0); d > 3*time.Second {
		return true, violation("C16", "no-prompt-termination", "server-stalled", "the OpenRGB server stopped reading after %d frames; ProcessEvents needed %v to return after the event stream ended", c.StallAfter, d)
	}
	if frozen {
		return true, violation("C16", "no-prompt-termination", "events-not-taken", "while the OpenRGB server hung (after %d frames) the device did not take a key event for 2 s: its event processing waits for the LED side", c.StallAfter)
	}
	time.Sleep(50 * time.Millisecond)
	for _, g := range strings.Split(allStacks(), "\n\n") {
		if strings.Contains(g, "internal/pkg/midi/device.") {
			time.Sleep(2 * time.Second)
			for _, g2 := range strings.Split(allStacks(), "\n\n") {
				if strings.Contains(g2, "internal/pkg/midi/device.") {
					return true, violation("C16", "background-activity-left", "server-stalled", "2 s after processing ended a goroutine of the device package is still alive:\n%s", firstLines(g2, 30))
				}
			}
			break
		}
	}
	classify("server stalled while LED traffic was running")
	return true, nil
}

func genC16Stall(t *rapid.T) C16StallCase {
	base := genC17(t)
	c := C16StallCase{D: base.D, LEDs: base.LEDs, StallAfter: rapid.IntRange(2, 40).Draw(t, "stallAfter"), KeepMs: rapid.IntRange(1500, 3000).Draw(t, "keepMs")}
	h := newHistState(c.D)
	for len(h.steps) < 12 && len(h.noteKeys) > 0 {
		h.toggle(h.noteKeys[rapid.IntRange(0, len(h.noteKeys)-1).Draw(t, "key")])
	}
	for _, s := range h.steps {
		c.Hist = append(c.Hist, LedStep{T: "key", Code: s.Code, Val: s.Val})
	}
	return c
}

func TestC16Stall(t *testing.T) {
	requireMount(t)
	ReplayOrRapid(t, NewRun(t, "C16"), checkC16Stall, genC16Stall)
}

// ---------------------------------------------------------------- C16, the process does not run for a while
//
// TestC16Paused: "all timings" includes the one in which the whole process stands still for seconds (Ctrl-Z / fg, a
// paused virtual machine, a debugger, a machine that is swapping): right after a device has been attached the test process
// stops itself (SIGSTOP, continued by a helper after 5.2-6.5 s) - longer than the LED goroutine's budget for connecting to
// the OpenRGB server. Afterwards the device has to play on, end promptly when its stream ends, and leave nothing behind;
// above all the process has to be still there.
type C16PausedCase struct {
	D        *Desc    `json:"desc"`
	LEDs     []string `json:"leds"`
	AfterMs  int      `json:"after_ms"` // the pause begins this long after ProcessEvents was started
	PauseMs  int      `json:"pause_ms"`
	Server   bool     `json:"server"` // an OpenRGB server is reachable
	EndAfter int      `json:"end_after_ms"`
}

func checkC16Paused(c C16PausedCase) (nontrivial bool, v *Violation) {
	if c.PauseMs == 0 { // (corpus cases of the other C16 parts land here as an empty case)
		return false, nil
	}
	if err := BuildHidrawFixture(os.Getenv("VERIF_HIDRAW_FIXTURE"), map[int]string{0: "event5"}); err != nil {
		return false, violation("C16", "harness", "", "fixture: %v", err)
	}
	port := 1 // nothing listens there
	if c.Server {
		srv, err := NewOrgbServer([]OrgbController{{Name: "Generic Keyboard", Type: 5, Location: "HID: /dev/hidraw0", LEDs: c.LEDs}})
		if err != nil {
			return false, violation("C16", "harness", "", "fake OpenRGB server: %v", err)
		}
		defer srv.Close()
		port = srv.Port
	}
	cfg, _, pv := parseDesc("C16", c.D)
	if pv != nil {
		return false, pv
	}
	curRun.Inflight(c)
	defer curRun.InflightDone()
	before := deviceGoroutines()
	ld := startLedDevice(config.DeviceConfig{ConfigFile: "verif.toml", ConfigType: "user", Config: cfg}, c.D, "event5", 0, port, make(chan midi.Event))
	time.Sleep(time.Duration(c.AfterMs) * time.Millisecond)
	// stop this process; a helper continues it
	helper := exec.Command("sh", "-c", fmt.Sprintf("kill -STOP %d; sleep %d.%03d; kill -CONT %d", os.Getpid(), c.PauseMs/1000, c.PauseMs%1000, os.Getpid()))
	t0 := time.Now()
	if err := helper.Start(); err != nil {
		close(ld.in)
		return false, violation("C16", "harness", "", "cannot start the helper: %v", err)
	}
	_ = helper.Wait()
	paused := time.Since(t0)
	classifyIf(paused > 5*time.Second, "process stood still for more than 5 s right after a device was attached")
	time.Sleep(time.Duration(c.EndAfter) * time.Millisecond)
	// a key stroke, then the stream ends
	h := newHistState(c.D)
	if len(h.noteKeys) > 0 {
		k := h.noteKeys[0] &^ (twinBit | nodeBit)
		for _, val := range []int32{1, 0} {
			if err := ld.key(k, val); err != nil {
				return true, violation("C16", "stuck", "after-pause", "the device does not take key events after the process had stood still for %v: %v", paused, err)
			}
		}
	}
	tEnd := time.Now()
	close(ld.in)
	select {
	case p := <-ld.done:
		if p != "" {
			return true, violation("C16", "panic", "after-pause", "device panicked: %s", p)
		}
	case <-time.After(15 * time.Second):
		return true, violation("C16", "no-prompt-termination", "after-pause", "ProcessEvents had not returned 15 s after the event stream ended (the process had stood still for %v right after the device was attached)\n%s", paused, firstLines(allStacks(), 100))
	}
	if d := time.Since(tEnd); d > 3*time.Second {
		return true, violation("C16", "no-prompt-termination", "after-pause", "ProcessEvents needed %v to return after the event stream ended", d)
	}
	deadline := time.Now().Add(3 * time.Second)
	for deviceGoroutines() > before && time.Now().Before(deadline) {
		time.Sleep(20 * time.Millisecond)
	}
	if n := deviceGoroutines(); n > before {
		return true, violation("C16", "background-activity-left", "after-pause", "%d goroutine(s) of the device package are still alive 3 s after ProcessEvents returned\n%s", n-before, firstLines(allStacks(), 100))
	}
	return paused > 5*time.Second, nil
}

// deviceGoroutines counts the goroutines whose stack is inside the device package.
func deviceGoroutines() int {
	n := 0
	for _, g := range strings.Split(allStacks(), "\n\n") {
		if strings.Contains(g, "internal/pkg/midi/device.") {
			n++
		}
	}
	return n
}

func genC16Paused(t *rapid.T) C16PausedCase {
	base := genC17(t)
	return C16PausedCase{D: base.D, LEDs: base.LEDs, AfterMs: rapid.SampledFrom([]int{0, 0, 50, 120, 200, 400}).Draw(t, "afterMs"),
		PauseMs: rapid.IntRange(5200, 6500).Draw(t, "pauseMs"), Server: rapid.Bool().Draw(t, "server"), EndAfter: rapid.SampledFrom([]int{0, 100, 300, 700}).Draw(t, "endAfter")}
}

func TestC16Paused(t *testing.T) {
	requireMount(t)
	ReplayOrRapid(t, NewRun(t, "C16"), checkC16Paused, genC16Paused)
}
