// Package harness holds the property-based checks for gethiox/HIDI (C01..C20).
//
// Conventions (see /verif/DESIGN.md §2):
//   - every property is gen (all randomness, through rapid) + check (pure function of the case
//     and of the code under test, returns *Violation or nil);
//   - a Run collects coverage counters and writes them to $VERIF_OUT for the driver;
//   - a failing execution writes the case to $VERIF_OUT/fail-<shard>.json, the last one
//     written is the minimal (shrunk) one.
package harness

import (
	"encoding/binary"
	"encoding/json"
	"fmt"
	"hash/fnv"
	"os"
	"path/filepath"
	"runtime/debug"
	"sort"
	"strconv"
	"strings"
	"sync"
	"sync/atomic"
	"testing"

	"github.com/gethiox/HIDI/internal/pkg/logger"
	"pgregory.net/rapid"
)

// logTap, when set, sees every log record of the code under test (JSON bytes) before it is dropped.
var logTap atomic.Value // func([]byte)

// SetLogTap installs (or with nil removes) a function that is called for every log record of the code under test.
func SetLogTap(f func([]byte)) {
	if f == nil {
		f = func([]byte) {}
	}
	logTap.Store(f)
}

func init() {
	// logger.Messages has capacity 128 and every log call blocks when it is full.
	go func() {
		for m := range logger.Messages {
			if f, ok := logTap.Load().(func([]byte)); ok && f != nil {
				f(m)
			}
		}
	}()
}

// Violation is a failed oracle clause.
type Violation struct {
	Property  string `json:"property"`
	Clause    string `json:"clause"`    // which clause of the oracle failed
	Signature string `json:"signature"` // clause + normalised discriminating features (known-finding key)
	Message   string `json:"message"`
}

func (v *Violation) String() string {
	return fmt.Sprintf("%s [%s] %s", v.Property, v.Signature, v.Message)
}

func violation(prop, clause, sigDetail, format string, args ...interface{}) *Violation {
	sig := prop + "/" + clause
	if sigDetail != "" {
		sig += "/" + sigDetail
	}
	return &Violation{Property: prop, Clause: clause, Signature: sig, Message: fmt.Sprintf(format, args...)}
}

type knownFinding struct {
	Status    string `json:"status"` // "known" | "fixed"
	Property  string `json:"property"`
	Signature string `json:"signature"`
	What      string `json:"what"`
	Commit    string `json:"commit,omitempty"`
}

// Run is the per-test-function bookkeeping.
type Run struct {
	Property string
	Part     string // test function name: several Test functions may serve one property
	Tier     string
	Shard    int
	Shards   int
	OutDir   string

	mu          sync.Mutex
	evals       int64
	nontrivial  map[uint64]struct{}
	classes     map[string]int64
	samples     []interface{}
	sampleSeen  map[string]bool
	known       map[string]int64 // signature -> hits (status "known" only)
	knownSigs   map[string]string
	failed      bool
	extra       map[string]interface{}
	maxSamples  int
	replayCount int
}

func envInt(name string, def int) int {
	if v := os.Getenv(name); v != "" {
		if n, err := strconv.Atoi(v); err == nil {
			return n
		}
	}
	return def
}

// NewRun reads the environment prepared by the driver.
func NewRun(t testing.TB, property string) *Run {
	r := &Run{
		Property:   property,
		Part:       strings.ReplaceAll(t.Name(), "/", "_"),
		Tier:       os.Getenv("VERIF_TIER"),
		Shard:      envInt("VERIF_SHARD", 0),
		Shards:     envInt("VERIF_SHARDS", 1),
		OutDir:     os.Getenv("VERIF_OUT"),
		nontrivial: map[uint64]struct{}{},
		classes:    map[string]int64{},
		sampleSeen: map[string]bool{},
		known:      map[string]int64{},
		knownSigs:  map[string]string{},
		extra:      map[string]interface{}{},
		maxSamples: 6,
	}
	if r.Tier == "" {
		r.Tier = "quick"
	}
	if r.OutDir == "" {
		r.OutDir = filepath.Join(os.TempDir(), "verif-out-"+property)
	}
	_ = os.MkdirAll(r.OutDir, 0o755)
	if path := os.Getenv("VERIF_KNOWN"); path != "" {
		if data, err := os.ReadFile(path); err == nil {
			var list []knownFinding
			if err := json.Unmarshal(data, &list); err != nil {
				t.Fatalf("known findings file %s does not parse: %v", path, err)
			}
			for _, k := range list {
				if k.Status == "known" && k.Property == property {
					r.knownSigs[k.Signature] = k.What
				}
			}
		}
	}
	return r
}

func (r *Run) Thorough() bool { return r.Tier == "thorough" }

// Scale picks a size by tier.
func (r *Run) Scale(quick, thorough int) int {
	if r.Thorough() {
		return thorough
	}
	return quick
}

func hashJSON(v interface{}) (uint64, []byte) {
	data, err := json.Marshal(v)
	if err != nil {
		panic(err)
	}
	h := fnv.New64a()
	h.Write(data)
	return h.Sum64(), data
}

// Class counts a generator / coverage class.
func (r *Run) Class(name string) {
	r.mu.Lock()
	if !r.failed {
		r.classes[name]++
	}
	r.mu.Unlock()
}

func (r *Run) ClassN(name string, n int64) {
	r.mu.Lock()
	if !r.failed {
		r.classes[name] += n
	}
	r.mu.Unlock()
}

func (r *Run) SetExtra(key string, v interface{}) {
	r.mu.Lock()
	r.extra[key] = v
	r.mu.Unlock()
}

// Count records one evaluated case. nontrivialKey is what identifies the case for the
// distinct-non-trivial count (nil: trivial). sample is rendered into the evidence.
func (r *Run) Count(nontrivial bool, key interface{}, sample func() interface{}) {
	r.mu.Lock()
	defer r.mu.Unlock()
	if r.failed {
		return
	}
	r.evals++
	if !nontrivial {
		return
	}
	h, _ := hashJSON(key)
	if _, ok := r.nontrivial[h]; ok {
		return
	}
	r.nontrivial[h] = struct{}{}
	if sample != nil && len(r.samples) < r.maxSamples {
		// spread samples: take the 1st, 10th, 100th ... distinct non-trivial case
		n := len(r.nontrivial)
		if n == 1 || n == 7 || n == 50 || n == 300 || n == 2000 || n == 12000 {
			r.samples = append(r.samples, sample())
		}
	}
}

// Known reports whether the violation is listed as a known finding; a hit is counted.
func (r *Run) Known(v *Violation) bool {
	if v == nil {
		return false
	}
	r.mu.Lock()
	defer r.mu.Unlock()
	if _, ok := r.knownSigs[v.Signature]; ok {
		r.known[v.Signature]++
		return true
	}
	return false
}

// IsKnownSig lets an oracle skip a clause for a class that is a listed finding.
func (r *Run) IsKnownSig(sig string) bool {
	_, ok := r.knownSigs[sig]
	return ok
}

// Fail records a violating case (the last call wins: rapid's final execution is the minimal case).
func (r *Run) Fail(c interface{}, v *Violation) {
	r.mu.Lock()
	r.failed = true
	r.mu.Unlock()
	rec := map[string]interface{}{"property": r.Property, "violation": v, "case": c}
	data, _ := json.MarshalIndent(rec, "", " ")
	_ = os.WriteFile(filepath.Join(r.OutDir, fmt.Sprintf("fail-%s-%d.json", r.Part, r.Shard)), data, 0o644)
}

// Inflight persists the case about to be executed, for checks in which the code under
// test may kill the process from a goroutine the harness does not own.
func (r *Run) Inflight(c interface{}) {
	rec := map[string]interface{}{"property": r.Property, "case": c,
		"violation": &Violation{Property: r.Property, Clause: "process-died", Signature: r.Property + "/process-died",
			Message: "the test process died while executing this case"}}
	data, _ := json.Marshal(rec)
	_ = os.WriteFile(filepath.Join(r.OutDir, fmt.Sprintf("inflight-%s-%d.json", r.Part, r.Shard)), data, 0o644)
}

// crashGuarded lists the properties whose checks run goroutines of the code under test (the device's MIDI-input and LED
// goroutines, the relay, the fan-out, the watcher): an unrecovered panic there kills the test process, which no recover in the
// harness can turn into a violation. For these the case about to be executed is persisted, and the driver reports the death of
// the process as a violation when the crash trace points into gethiox/HIDI (see crash_in_code_under_test in ./check).
var crashGuarded = map[string]bool{"C01": true, "C02": true, "C03": true, "C04": true, "C05": true, "C06": true, "C07": true,
	"C08": true, "C13": true, "C14": true, "C15": true, "C19": true}

func (r *Run) InflightDone() {
	_ = os.Remove(filepath.Join(r.OutDir, fmt.Sprintf("inflight-%s-%d.json", r.Part, r.Shard)))
}

// Finish writes the shard's statistics.
func (r *Run) Finish() {
	r.mu.Lock()
	defer r.mu.Unlock()
	hashes := make([]uint64, 0, len(r.nontrivial))
	for h := range r.nontrivial {
		hashes = append(hashes, h)
	}
	sort.Slice(hashes, func(i, j int) bool { return hashes[i] < hashes[j] })
	buf := make([]byte, 8*len(hashes))
	for i, h := range hashes {
		binary.LittleEndian.PutUint64(buf[8*i:], h)
	}
	_ = os.WriteFile(filepath.Join(r.OutDir, fmt.Sprintf("hashes-%s-%d.bin", r.Part, r.Shard)), buf, 0o644)
	st := map[string]interface{}{
		"property":    r.Property,
		"part":        r.Part,
		"shard":       r.Shard,
		"evaluations": r.evals,
		"nontrivial":  len(hashes),
		"classes":     r.classes,
		"samples":     r.samples,
		"known":       r.known,
		"known_what":  r.knownSigs,
		"failed":      r.failed,
		"extra":       r.extra,
		"replayed":    r.replayCount,
	}
	data, _ := json.MarshalIndent(st, "", " ")
	_ = os.WriteFile(filepath.Join(r.OutDir, fmt.Sprintf("stats-%s-%d.json", r.Part, r.Shard)), data, 0o644)
}

// Eval is the common tail of every rapid property: count, filter known findings, fail.
func Eval[C any](r *Run, t interface {
	Fatalf(string, ...interface{})
}, c C, nontrivial bool, v *Violation) {
	sample := func() interface{} {
		if s, ok := interface{}(c).(Sampler); ok {
			return s.Sample()
		}
		if s, ok := interface{}(&c).(Sampler); ok {
			return s.Sample()
		}
		return c
	}
	if v != nil {
		if r.Known(v) {
			r.Count(nontrivial, c, sample)
			return
		}
		r.Fail(c, v)
		t.Fatalf("VIOLATION %s", v.String())
		return
	}
	r.Count(nontrivial, c, sample)
}

// Sampler lets a case type render itself compactly for the evidence file (the replay file always
// holds the full case).
type Sampler interface {
	Sample() interface{}
}

// guard converts a panic in the code under test into a violation.
func guard(prop, clause string, f func() *Violation) (v *Violation) {
	defer func() {
		if p := recover(); p != nil {
			st := string(debug.Stack())
			v = violation(prop, clause, panicSite(st), "panic: %v\n%s", p, trimStack(st))
		}
	}()
	return f()
}

// panicSite extracts the innermost frame below the panic that belongs to HIDI or go-toml.
func panicSite(stack string) string {
	lines := strings.Split(stack, "\n")
	seenPanic := false
	for _, l := range lines {
		l = strings.TrimSpace(l)
		if strings.HasPrefix(l, "panic(") {
			seenPanic = true
			continue
		}
		if !seenPanic {
			continue
		}
		if strings.HasPrefix(l, "github.com/gethiox/HIDI/verifharness") {
			continue
		}
		if strings.HasPrefix(l, "github.com/gethiox/HIDI/") || strings.HasPrefix(l, "github.com/pelletier/go-toml") || strings.HasPrefix(l, "main.") {
			if i := strings.Index(l, "("); i > 0 {
				l = l[:i]
			}
			l = strings.TrimPrefix(l, "github.com/gethiox/HIDI/")
			return l
		}
	}
	return "unknown-site"
}

func trimStack(st string) string {
	lines := strings.Split(st, "\n")
	if len(lines) > 40 {
		lines = lines[:40]
	}
	return strings.Join(lines, "\n")
}

// ReplayOrRapid is the standard body of a Test function.
//   - VERIF_REPLAY=<file>: load the case and run check once, no rapid;
//   - otherwise: corpus cases first (VERIF_CORPUS dir, files <property>-*.json or in <property>/), then rapid.
func ReplayOrRapid[C any](t *testing.T, r *Run, check func(C) (bool, *Violation), gen func(*rapid.T) C) {
	defer r.Finish()
	curRun = r
	if crashGuarded[r.Property] {
		inner := check
		check = func(c C) (bool, *Violation) {
			r.Inflight(c)
			return inner(c)
		}
		defer r.InflightDone()
	}
	if path := os.Getenv("VERIF_REPLAY"); path != "" {
		c, err := loadCase[C](path)
		if err != nil {
			t.Fatalf("cannot load replay %s: %v", path, err)
		}
		nt, v := check(c)
		Eval(r, t, c, nt, v)
		return
	}
	if dir := os.Getenv("VERIF_CORPUS"); dir != "" && r.Shard == 0 {
		files, _ := filepath.Glob(filepath.Join(dir, r.Property, "*.json"))
		sort.Strings(files)
		for _, f := range files {
			c, err := loadCase[C](f)
			if err != nil {
				t.Fatalf("corpus file %s: %v", f, err)
			}
			nt, v := check(c)
			r.replayCount++
			Eval(r, t, c, nt, v)
		}
	}
	rapid.Check(t, func(rt *rapid.T) {
		c := gen(rt)
		nt, v := check(c)
		Eval(r, rt, c, nt, v)
	})
}

func loadCase[C any](path string) (C, error) {
	var c C
	data, err := os.ReadFile(path)
	if err != nil {
		return c, err
	}
	var rec struct {
		Case json.RawMessage `json:"case"`
	}
	if err := json.Unmarshal(data, &rec); err == nil && len(rec.Case) > 0 {
		data = rec.Case
	}
	err = json.Unmarshal(data, &c)
	return c, err
}

// curRun is the Run of the Test function executing in this process (the driver starts one
// Test function per process); classify() lets check functions feed the class histogram.
var curRun *Run

func classify(label string) {
	if curRun != nil {
		curRun.Class(label)
	}
}

func classifyIf(cond bool, label string) {
	if cond {
		classify(label)
	}
}

var chdirMu sync.Mutex

// inDir runs f with the process' working directory set to dir.
func inDir(dir string, f func()) error {
	chdirMu.Lock()
	defer chdirMu.Unlock()
	old, err := os.Getwd()
	if err != nil {
		return err
	}
	if err := os.Chdir(dir); err != nil {
		return err
	}
	defer os.Chdir(old)
	f()
	return nil
}

// ---- exported aliases for the in-package cmd/hidi checks (overlay/cmdhidi_common_test.go) ----

func NewViolation(prop, clause, sigDetail, format string, args ...interface{}) *Violation {
	return violation(prop, clause, sigDetail, format, args...)
}

func Guard(prop, clause string, f func() *Violation) *Violation { return guard(prop, clause, f) }

func Classify(label string) { classify(label) }

func InDir(dir string, f func()) error { return inDir(dir, f) }

func SetCurrentRun(r *Run) { curRun = r }
