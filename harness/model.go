package harness

import (
	"fmt"
	"math/big"
)

// Reference model of the key engine, written from the property texts (C02, C03, C04, C13, C14)
// and the user README — not from device.go. All arithmetic is in unbounded int.

// PK identifies a physical key: key codes are scoped to the sub-handler (event node) that reports them.
type PK struct {
	Sub  string
	Code uint16
}

type heldNote struct {
	Ch, Pitch int
}

type ModelState struct {
	Octave, Semitone int
	Channel          int // 0..15
	Mapping          int
}

type Model struct {
	d        *Desc
	velocity int
	ModelState
	heldActions map[string]bool
	holders     map[heldNote]int
	perKey      map[PK]heldNote // key (sub-handler, code) -> what its press registered
	keysDown    map[uint16]bool
	Learning    bool
	ExitFired   bool
	actionOf    map[uint16]string
}

func NewModel(d *Desc) *Model {
	m := &Model{d: d, heldActions: map[string]bool{}, holders: map[heldNote]int{}, perKey: map[PK]heldNote{},
		keysDown: map[uint16]bool{}, actionOf: map[uint16]string{}}
	m.Octave, m.Semitone, m.Channel = d.Octave, d.Semitone, d.Channel-1
	for i, mp := range d.Mappings {
		if mp.Name == d.DefMapping {
			m.Mapping = i // the parser keeps the last match; names are unique in generated descriptions
		}
	}
	m.velocity = d.Velocity
	if m.velocity == 0 {
		m.velocity = 64
	}
	for _, a := range d.Actions {
		m.actionOf[a.Code] = a.Action
	}
	return m
}

func (m *Model) MappingName() string { return m.d.Mappings[m.Mapping].Name }

func (m *Model) lookupKey(sub string, code uint16) (KeyDef, bool) {
	sub = subOfSK(sub) // both event nodes of a name share the mapping
	mp := &m.d.Mappings[m.Mapping]
	for _, k := range mp.Keys {
		if k.Sub == sub && k.Code == code {
			return k, true
		}
	}
	return KeyDef{}, false
}

var actionPartner = map[string]string{
	"octave_up": "octave_down", "octave_down": "octave_up",
	"semitone_up": "semitone_down", "semitone_down": "semitone_up",
	"channel_up": "channel_down", "channel_down": "channel_up",
	"mapping_up": "mapping_down", "mapping_down": "mapping_up",
}

func noteOn(ch, pitch, vel int) []byte { return []byte{0x90 | byte(ch), byte(pitch), byte(vel)} }
func noteOff(ch, pitch int) []byte     { return []byte{0x80 | byte(ch), byte(pitch), 0} }

// ModelStep is the model's account of one step.
type ModelStep struct {
	Out        [][]byte
	Kind       string // "note-press" "note-release" "action-press" "action-release" "panic" "exit" "ignored"
	Action     string
	Pitch      int  // exact (unbounded) pitch for note presses
	OutOfRange bool // note press whose pitch is outside 0..127
	Collision  int  // holders of the (channel,pitch) before this press
	Wrapped    bool // channel + offset wrapped past 16
	Saturated  bool
	PairReset  bool
	Signal     bool
}

func (m *Model) panicBurst() [][]byte {
	out := [][]byte{{0xB0 | byte(m.Channel), 123, 0}}
	for n := 0; n < 128; n++ {
		out = append(out, noteOff(m.Channel, n))
	}
	return out
}

// Key applies a key press (val 1) or release (val 0).
func (m *Model) Key(sub string, code uint16, val int32) ModelStep {
	if val == 1 {
		m.keysDown[code] = true
		if len(m.d.Exit) > 0 {
			all := true
			for _, c := range m.d.Exit {
				if !m.keysDown[c] {
					all = false
				}
			}
			if all {
				m.ExitFired = true
				return ModelStep{Kind: "exit", Signal: true}
			}
		}
	} else {
		delete(m.keysDown, code)
	}
	if act, ok := m.actionOf[code]; ok {
		return m.action(act, val)
	}
	if val == 1 {
		k, ok := m.lookupKey(sub, code)
		if !ok {
			return ModelStep{Kind: "ignored"}
		}
		return m.press(PK{sub, code}, k)
	}
	return m.release(PK{sub, code})
}

func (m *Model) press(code PK, k KeyDef) ModelStep {
	st := ModelStep{Kind: "note-press"}
	// the pitch of the statement, in integers without a width: octave and semitone may be anything a configuration states
	exact := new(big.Int).Mul(big.NewInt(12), big.NewInt(int64(m.Octave)))
	exact.Add(exact, big.NewInt(int64(m.Semitone))).Add(exact, big.NewInt(int64(k.Note)))
	if exact.Sign() < 0 || exact.Cmp(big.NewInt(127)) > 0 {
		st.OutOfRange = true
		st.Pitch = -1
		if exact.IsInt64() {
			st.Pitch = int(exact.Int64())
		} else if exact.Sign() > 0 {
			st.Pitch = 1 << 62
		} else {
			st.Pitch = -(1 << 62)
		}
		return st
	}
	pitch := int(exact.Int64())
	st.Pitch = pitch
	ch := (m.Channel + k.Off) % 16
	st.Wrapped = m.Channel+k.Off > 15
	hn := heldNote{ch, pitch}
	n := m.holders[hn]
	st.Collision = n
	switch m.d.Mode {
	case "off", "retrigger":
		st.Out = append(st.Out, noteOn(ch, pitch, m.velocity))
	case "no_repeat":
		if n == 0 {
			st.Out = append(st.Out, noteOn(ch, pitch, m.velocity))
		}
	case "interrupt":
		if n > 0 {
			st.Out = append(st.Out, noteOff(ch, pitch))
		}
		st.Out = append(st.Out, noteOn(ch, pitch, m.velocity))
	}
	m.holders[hn] = n + 1
	m.perKey[code] = hn
	return st
}

func (m *Model) release(code PK) ModelStep {
	st := ModelStep{Kind: "note-release"}
	hn, ok := m.perKey[code]
	if !ok {
		st.Kind = "ignored"
		return st
	}
	delete(m.perKey, code)
	m.holders[hn]--
	if m.d.Mode == "off" || m.holders[hn] == 0 {
		st.Out = append(st.Out, noteOff(hn.Ch, hn.Pitch))
	}
	if m.holders[hn] <= 0 {
		delete(m.holders, hn)
	}
	return st
}

func (m *Model) action(act string, val int32) ModelStep {
	st := ModelStep{Action: act}
	if val == 0 {
		st.Kind = "action-release"
		delete(m.heldActions, act)
		if act == "cc_learning" {
			m.Learning = false
		}
		return st
	}
	st.Kind = "action-press"
	m.heldActions[act] = true
	if p, ok := actionPartner[act]; ok && m.heldActions[p] {
		st.PairReset = true
		switch act {
		case "octave_up", "octave_down":
			m.Octave = 0
		case "semitone_up", "semitone_down":
			m.Semitone = 0
		case "channel_up", "channel_down":
			m.Channel = 0
		case "mapping_up", "mapping_down":
			m.Mapping = 0
		}
		return st
	}
	switch act {
	case "octave_up":
		m.Octave++
	case "octave_down":
		m.Octave--
	case "semitone_up":
		m.Semitone++
	case "semitone_down":
		m.Semitone--
	case "channel_up":
		if m.Channel < 15 {
			m.Channel++
		} else {
			st.Saturated = true
		}
	case "channel_down":
		if m.Channel > 0 {
			m.Channel--
		} else {
			st.Saturated = true
		}
	case "mapping_up":
		if m.Mapping < len(m.d.Mappings)-1 {
			m.Mapping++
		} else {
			st.Saturated = true
		}
	case "mapping_down":
		if m.Mapping > 0 {
			m.Mapping--
		} else {
			st.Saturated = true
		}
	case "panic":
		st.Kind = "panic"
		st.Out = m.panicBurst()
	case "cc_learning":
		m.Learning = true
	case "multinote":
	}
	return st
}

// CompletePairHeld reports whether both actions of some up/down pair are held.
func (m *Model) CompletePairHeld() bool {
	for a, p := range actionPartner {
		if m.heldActions[a] && m.heldActions[p] {
			return true
		}
	}
	return false
}

func (m *Model) HeldNoteKeys() int { return len(m.perKey) }

func (m *Model) MaxHolders() int {
	mx := 0
	for _, n := range m.holders {
		if n > mx {
			mx = n
		}
	}
	return mx
}

func sameMsgs(a, b [][]byte) bool {
	if len(a) != len(b) {
		return false
	}
	for i := range a {
		if string(a[i]) != string(b[i]) {
			return false
		}
	}
	return true
}

func (s ModelState) String() string {
	return fmt.Sprintf("octave=%d semitone=%d channel=%d mapping#%d", s.Octave, s.Semitone, s.Channel+1, s.Mapping)
}
