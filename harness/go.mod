module github.com/gethiox/HIDI/verifharness

go 1.23

toolchain go1.23.5

require (
	github.com/gethiox/HIDI v0.0.0
	github.com/holoplot/go-evdev v0.0.0-20220721205823-d31c64b9d636
	pgregory.net/rapid v1.3.0
)

require (
	github.com/amenzhinsky/go-memexec v0.6.0 // indirect
	github.com/fsnotify/fsnotify v1.5.1 // indirect
	github.com/lucasb-eyer/go-colorful v1.2.0 // indirect
	github.com/pelletier/go-toml/v2 v2.0.3 // indirect
	github.com/realbucksavage/openrgb-go v0.0.0-20220821164356-dc79903db082 // indirect
	gitlab.com/gomidi/midi/v2 v2.0.23 // indirect
	go.uber.org/atomic v1.9.0 // indirect
	go.uber.org/multierr v1.8.0 // indirect
	go.uber.org/zap v1.21.0 // indirect
	golang.org/x/sys v0.0.0-20220412211240-33da011f77ad // indirect
)

replace github.com/gethiox/HIDI => /repo
