package harness

import (
	"encoding/binary"
	"fmt"
	"io"
	"net"
	"os"
	"path/filepath"
	"sync"
	"time"
)

// Fake OpenRGB SDK server (the subset realbucksavage/openrgb-go speaks): set client name (50),
// controller count (0), controller data (1), update LEDs (1050).

type OrgbLED struct {
	Name string `json:"name"`
}

type OrgbController struct {
	Name     string   `json:"name"`
	Type     uint32   `json:"type"`     // 5 = keyboard
	Location string   `json:"location"` // e.g. "HID: /dev/hidraw0"
	LEDs     []string `json:"leds"`
}

type OrgbFrame struct {
	Device int
	Colors [][3]byte
	At     time.Time
	Seq    int
}

type OrgbServer struct {
	ln          net.Listener
	Port        int
	controllers []OrgbController
	mu          sync.Mutex
	frames      map[int][]OrgbFrame // per controller index
	seq         int
	conns       []net.Conn
	notify      chan struct{}
	Connections int
	Requests    int
	// Mute: the server accepts connections and reads requests but never answers (a server that hangs)
	Mute bool
	// StallAfter > 0: after that many LED frames the server stops reading from its connections (it hangs while the client
	// keeps sending; with small socket buffers the client's next writes block)
	StallAfter int
	stalled    chan struct{}
	done       chan struct{}
}

// Stalled is closed when the server has stopped reading.
func (s *OrgbServer) Stalled() <-chan struct{} { return s.stalled }

func orgbString(s string) []byte {
	b := make([]byte, 2, 3+len(s))
	binary.LittleEndian.PutUint16(b, uint16(len(s)+1))
	b = append(b, s...)
	return append(b, 0)
}

func (c *OrgbController) encode() []byte {
	body := make([]byte, 4) // data size, ignored by the client
	u32 := func(v uint32) {
		t := make([]byte, 4)
		binary.LittleEndian.PutUint32(t, v)
		body = append(body, t...)
	}
	u16 := func(v uint16) {
		t := make([]byte, 2)
		binary.LittleEndian.PutUint16(t, v)
		body = append(body, t...)
	}
	u32(c.Type)
	for _, s := range []string{c.Name, "verif fake controller", "1.0", "SN0001", c.Location} {
		body = append(body, orgbString(s)...)
	}
	u16(0) // modes
	u32(0) // active mode
	u16(0) // zones
	u16(uint16(len(c.LEDs)))
	for _, l := range c.LEDs {
		body = append(body, orgbString(l)...)
		body = append(body, 0, 0, 0, 0)
	}
	u16(uint16(len(c.LEDs)))
	for range c.LEDs {
		body = append(body, 0, 0, 0, 0)
	}
	binary.LittleEndian.PutUint32(body, uint32(len(body)))
	return body
}

func NewOrgbServer(controllers []OrgbController) (*OrgbServer, error) {
	ln, err := net.Listen("tcp", "127.0.0.1:0")
	if err != nil {
		return nil, err
	}
	s := &OrgbServer{ln: ln, Port: ln.Addr().(*net.TCPAddr).Port, controllers: controllers, frames: map[int][]OrgbFrame{}, notify: make(chan struct{}, 1), stalled: make(chan struct{}), done: make(chan struct{})}
	go s.accept()
	return s, nil
}

func (s *OrgbServer) accept() {
	for {
		conn, err := s.ln.Accept()
		if err != nil {
			return
		}
		s.mu.Lock()
		s.conns = append(s.conns, conn)
		s.Connections++
		s.mu.Unlock()
		go s.serve(conn)
	}
}

func (s *OrgbServer) reply(conn net.Conn, dev, cmd uint32, body []byte) {
	hdr := make([]byte, 16, 16+len(body))
	copy(hdr, "ORGB")
	binary.LittleEndian.PutUint32(hdr[4:], dev)
	binary.LittleEndian.PutUint32(hdr[8:], cmd)
	binary.LittleEndian.PutUint32(hdr[12:], uint32(len(body)))
	conn.Write(append(hdr, body...)) // one write: the client reads header and body with one Read each
}

func (s *OrgbServer) serve(conn net.Conn) {
	defer conn.Close()
	hdr := make([]byte, 16)
	for {
		if s.StallAfter > 0 && s.Seq() >= s.StallAfter {
			s.mu.Lock()
			select {
			case <-s.stalled:
			default:
				close(s.stalled)
			}
			s.mu.Unlock()
			<-s.done // hangs with the connection open until the server is closed
			return
		}
		if _, err := io.ReadFull(conn, hdr); err != nil {
			return
		}
		dev := binary.LittleEndian.Uint32(hdr[4:])
		cmd := binary.LittleEndian.Uint32(hdr[8:])
		n := binary.LittleEndian.Uint32(hdr[12:])
		if n > 1<<20 {
			return
		}
		body := make([]byte, n)
		if _, err := io.ReadFull(conn, body); err != nil {
			return
		}
		s.mu.Lock()
		s.Requests++
		s.mu.Unlock()
		if s.Mute {
			continue
		}
		switch cmd {
		case 50: // set client name
		case 0:
			b := make([]byte, 4)
			binary.LittleEndian.PutUint32(b, uint32(len(s.controllers)))
			s.reply(conn, 0, 0, b)
		case 1:
			if int(dev) < len(s.controllers) {
				s.reply(conn, dev, 1, s.controllers[dev].encode())
			} else {
				s.reply(conn, dev, 1, make([]byte, 64))
			}
		case 1050:
			// 4 bytes size prefix, 2 bytes count (the client fills only one byte), then 4 bytes per colour
			if len(body) < 6 {
				continue
			}
			cnt := (len(body) - 6) / 4
			f := OrgbFrame{Device: int(dev), At: time.Now()}
			for i := 0; i < cnt; i++ {
				o := 6 + 4*i
				f.Colors = append(f.Colors, [3]byte{body[o], body[o+1], body[o+2]})
			}
			s.mu.Lock()
			s.seq++
			f.Seq = s.seq
			fr := append(s.frames[int(dev)], f)
			if len(fr) > 64 {
				fr = fr[len(fr)-64:]
			}
			s.frames[int(dev)] = fr
			s.mu.Unlock()
			select {
			case s.notify <- struct{}{}:
			default:
			}
		}
	}
}

// Last returns the newest frame for the controller (nil if none).
func (s *OrgbServer) Last(dev int) *OrgbFrame {
	s.mu.Lock()
	defer s.mu.Unlock()
	fr := s.frames[dev]
	if len(fr) == 0 {
		return nil
	}
	f := fr[len(fr)-1]
	return &f
}

// Since returns the frames of a controller with sequence number > seq.
func (s *OrgbServer) Since(dev, seq int) []OrgbFrame {
	s.mu.Lock()
	defer s.mu.Unlock()
	var out []OrgbFrame
	for _, f := range s.frames[dev] {
		if f.Seq > seq {
			out = append(out, f)
		}
	}
	return out
}

func (s *OrgbServer) Seq() int {
	s.mu.Lock()
	defer s.mu.Unlock()
	return s.seq
}

// WaitFrame blocks until a new frame arrives or the timeout passes.
func (s *OrgbServer) WaitFrame(d time.Duration) bool {
	select {
	case <-s.notify:
		return true
	case <-time.After(d):
		return false
	}
}

func (s *OrgbServer) Close() {
	s.ln.Close()
	s.mu.Lock()
	select {
	case <-s.done:
	default:
		close(s.done)
	}
	for _, c := range s.conns {
		c.Close()
	}
	s.mu.Unlock()
}

// BuildHidrawFixture creates <root>/hidraw<i>/device/input/input<i>/event<event> for every pair.
// The driver bind-mounts root over /sys/class/hidraw inside a private mount namespace.
func BuildHidrawFixture(root string, events map[int]string) error {
	entries, _ := os.ReadDir(root)
	for _, e := range entries {
		os.RemoveAll(filepath.Join(root, e.Name()))
	}
	for i, ev := range events {
		p := filepath.Join(root, fmt.Sprintf("hidraw%d", i), "device", "input", fmt.Sprintf("input%d", 7+i), ev)
		if err := os.MkdirAll(p, 0o755); err != nil {
			return err
		}
	}
	return nil
}

// HidrawMounted reports whether /sys/class/hidraw is the harness' fixture directory.
func HidrawMounted() bool {
	fixture := os.Getenv("VERIF_HIDRAW_FIXTURE")
	if fixture == "" {
		return false
	}
	marker := filepath.Join(fixture, ".verif-marker")
	if err := os.WriteFile(marker, []byte("x"), 0o644); err != nil {
		return false
	}
	defer os.Remove(marker)
	_, err := os.Stat("/sys/class/hidraw/.verif-marker")
	return err == nil
}
