package harness

import (
	"context"
	"errors"
	"fmt"
	"os"
	"path/filepath"
	"strings"
	"sync"
	"syscall"
	"testing"
	"time"

	"github.com/gethiox/HIDI/internal/pkg/input"
	"github.com/gethiox/HIDI/internal/pkg/midi/device/config"
	"pgregory.net/rapid"
)

// C12: configuration selection. A temp hidi-config tree is built, the process chdirs into it
// (loader paths are cwd-relative), LoadDeviceConfigs + FindConfig are called.

var c12Dirs = []string{"hidi-config/user/keyboard", "hidi-config/user/gamepad", "hidi-config/factory/keyboard", "hidi-config/factory/gamepad"}

type c12Noise struct {
	Dir  int    `json:"dir"`
	Name string `json:"name"`
	Kind string `json:"kind"`
}

type C12Case struct {
	Kbd        [4]bool    `json:"kbd"` // user exact, user default, factory exact, factory default
	Pad        [4]bool    `json:"pad"`
	ID         [4]uint16  `json:"id"`       // identifier written into the "exact" files
	Query      [4]uint16  `json:"query"`    // identifier of the device asking
	DevType    int        `json:"dev_type"` // input.DeviceType
	Noise      []c12Noise `json:"noise"`
	MissingDir int        `json:"missing_dir"` // -1: all four directories exist
	Nested     [8]bool    `json:"nested"`      // candidate k of class c (index 4*c+k) lives in a nested sub-directory
	Others     []int      `json:"others"`      // directories that also hold a valid config of some other device
	// Linked: candidate k of class c (index 4*c+k) is a symbolic link to a file kept elsewhere (a dotfiles directory)
	Linked [8]bool `json:"linked,omitempty"`
	// Resave: after the first load every candidate file is saved again in place (same path, same length, other content:
	// the mapping name in capitals) and everything is loaded again, as after a change notification. 2: the file that was
	// served is made invalid by that edit (same length), so the next one in the order has to be served.
	Resave int `json:"resave,omitempty"`
	// Mtime: what the clock says about the second version. 0: written now. 1: it keeps the modification time of the first
	// version (cp -p, rsync -t, two saves within one tick). 2: a day older than the first (a backup put back). 3: the first
	// versions were dated an hour into the future (a clock that was wrong at the time), the second is written now.
	Mtime int `json:"mtime,omitempty"`
	// Names: how candidate k of class c (index 4*c+k) is called: 0 = the plain name, else an entry of c12NameForms (blanks,
	// non-ASCII letters in UTF-8 and in a legacy 8-bit encoding, a leading dot, a very long name ...); NestedName likewise for
	// the sub-directory of the nested candidates. A file name is a sequence of bytes, the configuration is inside the file.
	Names [8]int `json:"names,omitempty"`
	// SameName: the user's file for the exact identifier is called like the factory default file (a copy of the factory
	// default that the user gave the identifier of his own device). A name decides nothing - the identifier inside does.
	SameName   bool `json:"same_name,omitempty"`
	NestedName int  `json:"nested_name,omitempty"`
}

var c12NameForms = []string{"%s", "my %s", "Ger\xe4t %s", "пульт-%s", ".%s", "%s", "a-very-long-name-" + strings.Repeat("x", 150) + "-%s", "\xff\xfe%s", "caf\u00e9 %s", "tab\there %s"}
var c12DirForms = []string{"by-room", "fr\xfcher", "старое", "with blank", ".hidden"}

func c12Name(c *C12Case, idx int, plain string) string {
	return fmt.Sprintf(c12NameForms[c.Names[idx]%len(c12NameForms)], plain)
}

// c12FileName: base name of candidate k (0 user exact, 1 user default, 2 factory exact, 3 factory default) of a class.
func c12FileName(c *C12Case, class, k int) string {
	present := [][4]bool{c.Kbd, c.Pad}[class]
	if c.SameName && k == 0 && !(present[1] && c.Nested[4*class+0] == c.Nested[4*class+1]) {
		return c12Name(c, 4*class+3, "0_default.toml")
	}
	name := fmt.Sprintf("device_%s.toml", c12Tags[k])
	if k%2 == 1 {
		name = "0_default.toml"
	}
	return c12Name(c, 4*class+k, name)
}

func c12Config(tag string, id [4]uint16) string {
	d := &Desc{Mode: "interrupt", Exit: []uint16{}, ID: id, Channel: 1, Velocity: 64, DefMapping: tag, Colors: colorPalette,
		Mappings: []MappingDef{{Name: tag, KeySubs: []string{""}, Keys: []KeyDef{{Code: 30, Note: 60}}}}}
	return RenderTOML(d, nil)
}

var c12Tags = []string{"user-exact", "user-default", "factory-exact", "factory-default"}

func c12NoiseContent(kind string, id [4]uint16) []byte {
	switch kind {
	case "broken-toml":
		return []byte("collision_mode = \n[[mapping\n")
	case "fails-validation": // valid TOML, rejected by HIDI (unknown collision mode); carries the device's id
		d := &Desc{Mode: "nope", Exit: []uint16{}, ID: id, Channel: 1, Velocity: 64, DefMapping: "noise", Colors: colorPalette, Mappings: []MappingDef{{Name: "noise"}}}
		return []byte(RenderTOML(d, nil))
	case "unknown-field":
		return []byte(c12Config("noise", id) + "\nbogus_field = 1\n")
	case "empty":
		return nil
	case "binary":
		return []byte{0, 1, 2, 0xff, 0xfe, '[', 0x80, '\n', 0}
	case "decoder-crasher":
		return []byte("[[mapping.0]]0")
	case "late-decoder-crasher": // complete and valid (carries the device's id) up to a last construct on which the TOML decoder crashes
		return []byte(c12Config("noise", id) + "\n[[mapping.analog.0]]\n")
	case "late-syntax-error": // complete and valid up to a broken last line (an interrupted save)
		return []byte(c12Config("noise", id) + "\n[[mapping]]\nname = \"cut")
	case "valid-no-suffix", "valid-other-suffix": // a valid, higher-precedence looking config that must be ignored because of its name
		return []byte(c12Config("must-be-ignored", id))
	}
	return []byte("# " + kind)
}

func c12Setup(c *C12Case) (string, error) {
	root, err := os.MkdirTemp(".", "c12-")
	if err != nil {
		return "", err
	}
	root, _ = filepath.Abs(root)
	for i, d := range c12Dirs {
		if i == c.MissingDir {
			// make sure the parent exists so that only this directory is missing
			if err := os.MkdirAll(filepath.Join(root, filepath.Dir(d)), 0o755); err != nil {
				return root, err
			}
			continue
		}
		if err := os.MkdirAll(filepath.Join(root, d), 0o755); err != nil {
			return root, err
		}
	}
	write := func(dir int, name string, data []byte) error {
		if dir == c.MissingDir {
			return nil
		}
		p := filepath.Join(root, c12Dirs[dir], name)
		if err := os.MkdirAll(filepath.Dir(p), 0o755); err != nil {
			return err
		}
		return os.WriteFile(p, data, 0o644)
	}
	if err := c12WriteCandidates(root, c, write, false, -1, -1); err != nil {
		return root, err
	}
	if c.Mtime == 3 {
		future := time.Now().Add(time.Hour)
		_ = filepath.Walk(root, func(p string, info os.FileInfo, err error) error {
			if err == nil && info.Mode().IsRegular() {
				_ = os.Chtimes(p, future, future)
			}
			return nil
		})
	}
	for i, dir := range c.Others {
		other := [4]uint16{0x7777, uint16(i + 1), 0x1, 0x1}
		if err := write(dir, fmt.Sprintf("other_device_%d.toml", i), []byte(c12Config("other-device", other))); err != nil {
			return root, err
		}
	}
	for _, n := range c.Noise {
		if n.Kind == "dir-named-toml" {
			if n.Dir != c.MissingDir {
				_ = os.MkdirAll(filepath.Join(root, c12Dirs[n.Dir], n.Name), 0o755)
			}
			continue
		}
		if n.Kind == "fifo" { // a named pipe with a configuration file's name: opening it blocks until somebody writes
			if n.Dir != c.MissingDir {
				p := filepath.Join(root, c12Dirs[n.Dir], n.Name)
				_ = os.MkdirAll(filepath.Dir(p), 0o755)
				_ = syscall.Mkfifo(p, 0o644)
			}
			continue
		}
		if n.Kind == "too-deep" {
			// nested directories whose path grows past what a path may measure (PATH_MAX): the walk cannot even look at the
			// innermost ones. One entry that cannot be read is not a reason to give up on the directory, let alone the others
			if n.Dir != c.MissingDir {
				cur := filepath.Join(root, c12Dirs[n.Dir], strings.TrimSuffix(n.Name, ".toml"))
				prev, _ := os.Getwd()
				if os.MkdirAll(cur, 0o755) == nil && os.Chdir(cur) == nil {
					for k := 0; k < 20; k++ {
						seg := strings.Repeat("d", 250)
						if os.Mkdir(seg, 0o755) != nil || os.Chdir(seg) != nil {
							break
						}
					}
					_ = os.WriteFile("deep.toml", c12NoiseContent("broken-toml", c.Query), 0o644)
					_ = os.Chdir(prev)
				}
			}
			continue
		}
		if n.Kind == "dangling-symlink" {
			if n.Dir != c.MissingDir {
				_ = os.Symlink("/nonexistent/verif-target", filepath.Join(root, c12Dirs[n.Dir], n.Name))
			}
			continue
		}
		if err := write(n.Dir, n.Name, c12NoiseContent(n.Kind, c.Query)); err != nil {
			return root, err
		}
	}
	return root, nil
}

// c12WriteCandidates writes the (up to) eight candidate files. upper: the mapping names in capitals (a second version of
// the same length); (brokenClass, brokenK): that file gets an unsupported collision mode, again without changing its length.
func c12WriteCandidates(root string, c *C12Case, write func(dir int, name string, data []byte) error, upper bool, brokenClass, brokenK int) error {
	zero := [4]uint16{}
	for class, present := range [][4]bool{c.Kbd, c.Pad} { // class 0 keyboard, 1 gamepad
		cls := []string{"kbd", "pad"}[class]
		for k := 0; k < 4; k++ {
			if !present[k] {
				continue
			}
			dir := class // user/<class>
			if k >= 2 {
				dir = 2 + class // factory/<class>
			}
			id := c.ID
			if k%2 == 1 {
				id = zero
			}
			name := c12FileName(c, class, k)
			if c.Nested[4*class+k] {
				name = filepath.Join(c12DirForms[c.NestedName%len(c12DirForms)], "office", name)
			}
			tag := cls + "-" + c12Tags[k]
			if upper {
				tag = strings.ToUpper(tag)
			}
			text := c12Config(tag, id)
			if class == brokenClass && k == brokenK {
				text = strings.Replace(text, `collision_mode = "interrupt"`, `collision_mode = "interrupT"`, 1)
			}
			if c.Linked[4*class+k] {
				// the file lives in a dotfiles directory next to hidi-config; the configuration directory holds a link to it
				target := fmt.Sprintf("../../../dotfiles/%s-%d.toml", cls, k)
				if c.Nested[4*class+k] {
					target = "../../" + target
				}
				if err := write(dir, filepath.Join(filepath.Dir(name), target), []byte(text)); err != nil {
					return err
				}
				link := filepath.Join(root, c12Dirs[dir], name)
				_ = os.MkdirAll(filepath.Dir(link), 0o755)
				if _, err := os.Lstat(link); err != nil {
					if err := os.Symlink(target, link); err != nil {
						return err
					}
				}
				continue
			}
			if err := write(dir, name, []byte(text)); err != nil {
				return err
			}
		}
	}
	return nil
}

func checkC12(c C12Case) (bool, *Violation) {
	root, err := c12Setup(&c)
	defer func() {
		if root != "" {
			os.RemoveAll(root)
		}
	}()
	if err != nil {
		return false, violation("C12", "harness", "", "cannot build the fixture: %v", err)
	}
	var v *Violation
	served := -1
	evaluate := func(upper bool, brokenClass, brokenK int) *Violation {
		gen := ""
		if upper {
			gen = "/after-resave"
		}
		return guard("C12", "panic", func() *Violation {
			var wg sync.WaitGroup
			var cfgs config.DeviceConfigs
			var lerr error
			loaded := make(chan string, 1)
			go func() {
				defer func() {
					if p := recover(); p != nil {
						loaded <- fmt.Sprintf("%v\n%s", p, firstLines(allStacks(), 40))
					}
				}()
				cfgs, lerr = config.LoadDeviceConfigs(context.Background(), &wg)
				loaded <- ""
			}()
			select {
			case p := <-loaded:
				if p != "" {
					return violation("C12", "panic", "", "LoadDeviceConfigs panicked: %s", p)
				}
			case <-time.After(10 * time.Second):
				// let the loader go (it sits in open(2) of a named pipe): opening the other end ends the wait
				for _, n := range c.Noise {
					if n.Kind == "fifo" {
						if f, err := os.OpenFile(filepath.Join(root, c12Dirs[n.Dir], n.Name), os.O_WRONLY|syscall.O_NONBLOCK, 0); err == nil {
							f.Close()
						}
					}
				}
				return violation("C12", "load-hang", "", "LoadDeviceConfigs had not returned after 10 s (noise: %v): an entry that cannot be read as a file is neither reported nor skipped, nothing gets loaded", c.Noise)
			}
			if c.MissingDir >= 0 {
				classify("a configuration directory is missing")
				if lerr != nil {
					classify("missing directory reported as an error")
					return nil // an error is an accepted outcome
				}
			} else if lerr != nil {
				return violation("C12", "load-error", "", "all four directories exist but LoadDeviceConfigs failed: %v", lerr)
			}
			qid := input.InputID{Bus: c.Query[0], Vendor: c.Query[1], Product: c.Query[2], Version: c.Query[3]}
			got, ferr := cfgs.FindConfig(qid, input.DeviceType(c.DevType))
			var present [4]bool
			cls, dirBase := "", 0
			switch input.DeviceType(c.DevType) {
			case input.KeyboardDevice:
				present, cls, dirBase = c.Kbd, "kbd", 0
				if brokenClass == 0 {
					present[brokenK] = false // invalid now: reported and skipped
				}
			case input.JoystickDevice:
				present, cls, dirBase = c.Pad, "pad", 1
				if brokenClass == 1 {
					present[brokenK] = false
				}
			default:
				classify("unsupported device type")
				if ferr == nil {
					return violation("C12", "unsupported-type-served", "", "device type %v got configuration %q", input.DeviceType(c.DevType), got.ConfigFile)
				}
				if !errors.Is(ferr, config.UnsupportedDeviceType) {
					return violation("C12", "unsupported-type-error", "", "device type %v: error %v is not UnsupportedDeviceType", input.DeviceType(c.DevType), ferr)
				}
				return nil
			}
			match := c.ID == c.Query
			want := -1
			for k := 0; k < 4; k++ {
				dir := dirBase
				if k >= 2 {
					dir = 2 + dirBase
				}
				if !present[k] || dir == c.MissingDir {
					continue
				}
				if k%2 == 0 && !match {
					continue
				}
				want = k
				break
			}
			if want == -1 {
				classify("no candidate: error expected")
				if ferr == nil {
					return violation("C12", "served-without-candidate", cls, "no applicable file exists (present=%v, id match=%v) but FindConfig returned %q (%s, mapping %q)",
						present, match, got.ConfigFile, got.ConfigType, firstMappingName(&got))
				}
				return nil
			}
			classify("expected " + c12Tags[want])
			if ferr != nil {
				return violation("C12", "candidate-not-served", c12Tags[want], "expected the %s file (present=%v, id match=%v) but FindConfig failed: %v", c12Tags[want], present, match, ferr)
			}
			served = want
			wantTag := cls + "-" + c12Tags[want]
			if upper {
				wantTag = strings.ToUpper(wantTag)
			}
			wantType := "user"
			if want >= 2 {
				wantType = "factory"
			}
			if firstMappingName(&got) != wantTag || got.ConfigType != wantType {
				return violation("C12", "wrong-precedence", c12Tags[want]+gen, "expected the %s %s file (present=%v, id match=%v, class %s); got %q of type %q with mapping %q",
					wantType, c12Tags[want], present, match, cls, got.ConfigFile, got.ConfigType, firstMappingName(&got))
			}
			wantFile := c12FileName(&c, dirBase, want)
			// how the file is named in the result (base name, relative path, letter case) is the loader's choice; that it is
			// THIS file is not
			if !strings.EqualFold(filepath.Base(got.ConfigFile), filepath.Base(wantFile)) {
				return violation("C12", "wrong-file-name", "", "ConfigFile = %q, which is not the file %q", got.ConfigFile, wantFile)
			}
			return nil
		})
	}
	herr := inDir(root, func() {
		v = evaluate(false, -1, -1)
		if v != nil || c.Resave == 0 {
			return
		}
		// every candidate is saved again in place, then everything is loaded again
		write := func(dir int, name string, data []byte) error {
			if dir == c.MissingDir {
				return nil
			}
			p := filepath.Join(root, c12Dirs[dir], name)
			old, serr := os.Stat(p)
			if err := os.WriteFile(p, data, 0o644); err != nil {
				return err
			}
			if serr == nil && (c.Mtime == 1 || c.Mtime == 2) {
				mt := old.ModTime()
				if c.Mtime == 2 {
					mt = mt.Add(-24 * time.Hour)
				}
				return os.Chtimes(p, mt, mt)
			}
			return nil
		}
		brokenClass, brokenK := -1, -1
		if c.Resave == 2 && served >= 0 {
			brokenK = served
			if input.DeviceType(c.DevType) == input.JoystickDevice {
				brokenClass = 1
			} else {
				brokenClass = 0
			}
		}
		if err := c12WriteCandidates(root, &c, write, true, brokenClass, brokenK); err != nil {
			v = violation("C12", "harness", "", "cannot rewrite the fixture: %v", err)
			return
		}
		classify("candidates saved again in place and reloaded")
		classifyIf(brokenK >= 0, "the served file became invalid by the edit")
		classifyIf(c.Mtime == 1, "second version keeps the modification time of the first")
		classifyIf(c.Mtime == 2, "second version is dated a day before the first")
		classifyIf(c.Mtime == 3, "first version dated into the future")
		v = evaluate(true, brokenClass, brokenK)
		if v != nil {
			v.Message = "after every candidate file was saved again in place (same length) and the configurations were loaded again: " + v.Message
		}
	})
	if herr != nil {
		return false, violation("C12", "harness", "", "chdir: %v", herr)
	}
	nontrivial := len(c.Noise) > 0 || c.MissingDir >= 0
	for _, nst := range c.Nested {
		classifyIf(nst, "a candidate file in a nested sub-directory")
	}
	for _, l := range c.Linked {
		classifyIf(l, "a candidate file that is a symbolic link")
	}
	classifyIf(c.SameName, "the user's file for the device is called like the factory default file")
	for _, nm := range c.Names {
		classifyIf(nm == 2 || nm == 7, "a candidate file whose name is not valid UTF-8")
		classifyIf(nm != 0 && nm != 2 && nm != 7 && nm != 5, "a candidate file with blanks / non-ASCII letters / a leading dot / a very long name")
	}
	return nontrivial, v
}

func firstMappingName(dc *config.DeviceConfig) string {
	if len(dc.Config.KeyMappings) == 0 {
		return ""
	}
	return dc.Config.KeyMappings[0].Name
}

var c12NoiseKinds = []string{"broken-toml", "fails-validation", "unknown-field", "empty", "binary", "decoder-crasher", "late-decoder-crasher", "late-syntax-error", "valid-no-suffix",
	"valid-other-suffix", "text", "dir-named-toml", "dangling-symlink", "fifo", "too-deep"}

func c12NoiseName(t *rapid.T, kind string, i int) string {
	// noise sorts before or after the candidate files (the loader walks a directory in lexical order)
	base := fmt.Sprintf("%snoise_%d", rapid.SampledFrom([]string{"", "00_", "zz_", "A"}).Draw(t, "noisePrefix"), i)
	switch kind {
	case "valid-no-suffix":
		return fmt.Sprint(i) + rapid.SampledFrom([]string{"aaa_first", "config", "_toml", "0_default", "mytoml", "device_toml"}).Draw(t, "noSuffix")
	case "valid-other-suffix":
		return base + rapid.SampledFrom([]string{".toml.bak", ".toml~", ".tom", ".txt", ".yaml", ".toml.orig"}).Draw(t, "suffix")
	case "text":
		return base + ".md"
	}
	name := base + ".toml"
	if rapid.IntRange(0, 3).Draw(t, "nested") == 0 && kind != "dir-named-toml" {
		name = filepath.Join("nested", fmt.Sprint(i), name)
	}
	if rapid.IntRange(0, 4).Draw(t, "upper") == 0 {
		name = base + ".TOML" // only ever with content that cannot be a configuration
	}
	return name
}

func genC12(t *rapid.T) C12Case {
	c := C12Case{MissingDir: -1}
	for k := 0; k < 4; k++ {
		c.Kbd[k] = rapid.Bool().Draw(t, "kbd")
		c.Pad[k] = rapid.Bool().Draw(t, "pad")
	}
	for i := range c.ID {
		c.ID[i] = uint16(rapid.IntRange(1, 0xffff).Draw(t, "id"))
		// a field of an identifier may well be zero (version 0, bus 0 of a virtual device) or all ones: only the identifier
		// whose four fields are all zero stands for "default"
		if rapid.IntRange(0, 3).Draw(t, "idCorner") == 0 {
			c.ID[i] = rapid.SampledFrom([]uint16{0, 0, 1, 0xffff, 0x8000}).Draw(t, "idCornerValue")
		}
	}
	if c.ID == [4]uint16{} {
		c.ID[1] = 0x46d
	}
	c.Query = c.ID
	if rapid.IntRange(0, 2).Draw(t, "mismatch") == 0 {
		c.Query[rapid.IntRange(0, 3).Draw(t, "mismatchField")] ^= 0x0100
	}
	c.DevType = rapid.SampledFrom([]int{1, 1, 3, 3, 0, 2, 7}).Draw(t, "devType")
	for i := range c.Nested {
		c.Nested[i] = rapid.IntRange(0, 4).Draw(t, "nestedCandidate") == 0
	}
	n := rapid.IntRange(0, 6).Draw(t, "noise")
	for i := 0; i < n; i++ {
		kind := rapid.SampledFrom(c12NoiseKinds).Draw(t, "noiseKind")
		if kind == "valid-other-suffix" || kind == "valid-no-suffix" {
			// must not end in "toml" in any letter case
		}
		c.Noise = append(c.Noise, c12Noise{Dir: rapid.IntRange(0, 3).Draw(t, "noiseDir"), Name: c12NoiseName(t, kind, i), Kind: kind})
	}
	for i := rapid.IntRange(0, 2).Draw(t, "others"); i > 0; i-- {
		c.Others = append(c.Others, rapid.IntRange(0, 3).Draw(t, "otherDir"))
	}
	if rapid.IntRange(0, 4).Draw(t, "missing") == 0 {
		c.MissingDir = rapid.IntRange(0, 3).Draw(t, "missingDir")
	}
	for i := range c.Linked {
		c.Linked[i] = rapid.IntRange(0, 5).Draw(t, "linked") == 0
	}
	for i := range c.Names {
		if rapid.IntRange(0, 3).Draw(t, "oddName") == 0 {
			c.Names[i] = rapid.IntRange(1, len(c12NameForms)-1).Draw(t, "nameForm")
		}
	}
	c.NestedName = rapid.SampledFrom([]int{0, 0, 0, 1, 2, 3, 4}).Draw(t, "nestedName")
	c.SameName = rapid.IntRange(0, 3).Draw(t, "sameName") == 0
	if c.MissingDir < 0 {
		c.Resave = rapid.SampledFrom([]int{0, 0, 0, 1, 2}).Draw(t, "resave")
		if c.Resave > 0 {
			c.Mtime = rapid.SampledFrom([]int{0, 0, 1, 2, 3}).Draw(t, "mtime")
		}
	}
	return c
}

func TestC12(t *testing.T) { ReplayOrRapid(t, NewRun(t, "C12"), checkC12, genC12) }

// TestC12Matrix: every presence combination of the four candidates in both classes (256) x
// {keyboard, joystick} x {matching, non-matching identifier}, with a fixed decoration of noise.
func TestC12Matrix(t *testing.T) {
	r := NewRun(t, "C12")
	defer r.Finish()
	curRun = r
	idx := 0
	for kb := 0; kb < 16; kb++ {
		for pd := 0; pd < 16; pd++ {
			for _, dt := range []int{1, 3} {
				for _, match := range []bool{true, false} {
					idx++
					if idx%r.Shards != r.Shard {
						continue
					}
					c := C12Case{MissingDir: -1, ID: [4]uint16{3, 0x46d, 0xc31c, 0x110}, DevType: dt, Resave: idx % 3, Mtime: (idx / 3) % 4}
					for k := 0; k < 4; k++ {
						c.Kbd[k] = kb&(1<<k) != 0
						c.Pad[k] = pd&(1<<k) != 0
					}
					c.Query = c.ID
					if !match {
						c.Query[3]++
					}
					c.Noise = []c12Noise{{Dir: idx % 4, Name: "zz_broken.toml", Kind: "broken-toml"}, {Dir: (idx + 1) % 4, Name: "aaa_first", Kind: "valid-no-suffix"},
						{Dir: (idx + 3) % 4, Name: "00_broken.toml", Kind: "broken-toml"}, {Dir: idx % 4, Name: "000_mytoml", Kind: "valid-no-suffix"},
						{Dir: (idx + 2) % 4, Name: "nested/x/bad.toml", Kind: "fails-validation"}}
					nt, v := checkC12(c)
					if v != nil && !r.Known(v) {
						r.Fail(c, v)
						t.Fatalf("VIOLATION %s", v)
					}
					r.Count(nt, c, func() interface{} { return c })
				}
			}
		}
	}
	r.ClassN("matrix cells (all shards)", int64(idx))
}

func (c C12Case) Sample() interface{} {
	var noise []string
	for _, n := range c.Noise {
		noise = append(noise, fmt.Sprintf("%s:%s(%s)", c12Dirs[n.Dir][len("hidi-config/"):], n.Name, n.Kind))
	}
	return map[string]interface{}{"keyboard files [user exact, user default, factory exact, factory default]": c.Kbd, "gamepad files": c.Pad,
		"identifier matches": c.ID == c.Query, "device type": c.DevType, "missing directory": c.MissingDir, "noise": noise, "other devices' configs in": c.Others}
}
