package harness

import (
	"math"
	"sort"
	"testing"

	"pgregory.net/rapid"
)

type axisRange struct{ Min, Max int32 }

// (the usual ones twice; then short levers and switches, round decimal ranges, powers of two as maxima, 12-bit)
var axisRanges = []axisRange{{0, 255}, {-128, 127}, {-127, 127}, {-32768, 32767}, {0, 65535}, {0, 1023}, {-1, 1}, {-512, 511},
	{0, 255}, {-128, 127}, {-32768, 32767}, {0, 1}, {0, 2}, {0, 4}, {0, 100}, {-100, 100}, {0, 256}, {0, 4095}, {-2048, 2047}, {-2, 2}, {0, 127}, {0, 16383},
	// ranges that do not start at 0 (a 1..255 stick, a touchpad), and ranges with one side only
	{1, 255}, {64, 192}, {1472, 5472}, {100, 200}, {-255, 0}, {-1, 0}, {-32768, 0}, {1, 2}}

// (the user guide gives 0.0 - 1.0 as the range of a deadzone: 1.0 is a deadzone that covers the whole travel)
var deadzoneSet = []float64{0, 0.002, 0.05, 0.1, 0.25, 0.49, 0.5, 0.9, 1.0, 0.999, 0.95}

func genDeadzone(t *rapid.T, label string) float64 {
	if rapid.Bool().Draw(t, label+"Fixed") {
		return rapid.SampledFrom(deadzoneSet).Draw(t, label)
	}
	// three decimals: enough to hit the reciprocal-rounding cases, and exactly printable
	return float64(rapid.IntRange(0, 950).Draw(t, label+"Milli")) / 1000
}

func baseAxisDesc(t *rapid.T) *Desc {
	d := &Desc{Mode: "interrupt", Exit: []uint16{}, Velocity: 64, DefMapping: "A", Colors: colorPalette}
	d.Channel = rapid.SampledFrom([]int{1, 1, 2, 9, 16}).Draw(t, "channel")
	d.Mappings = []MappingDef{{Name: "A"}}
	return d
}

// placeDeadzone puts the deadzone into the specific table, the per-handler default, or nowhere (0).
func placeDeadzone(t *rapid.T, m *MappingDef, a *AxisDef) {
	dz := genDeadzone(t, "dz")
	switch rapid.IntRange(0, 3).Draw(t, "dzWhere") {
	case 0: // specific entry
		a.Deadzone = floatp(dz)
		if len(m.AnalogSubs) == 0 {
			other := genDeadzone(t, "dzOther")
			m.AnalogSubs = []AnalogSub{{Sub: a.Sub, Default: floatp(other)}}
		}
	case 1, 2: // per-handler default
		if len(m.AnalogSubs) == 0 {
			m.AnalogSubs = []AnalogSub{{Sub: a.Sub, Default: floatp(dz)}}
		}
	default: // no default at all: 0
		if len(m.AnalogSubs) == 0 {
			m.AnalogSubs = []AnalogSub{{Sub: a.Sub}}
		}
	}
}

// interestingRaws: both ends, centre, deadzone edges (each +-3).
func interestingRaws(a *AxisDef, dz float64) []int32 {
	set := map[int32]bool{}
	add := func(v float64) {
		for k := -3; k <= 3; k++ {
			r := int64(math.Round(v)) + int64(k)
			if r >= int64(a.Min) && r <= int64(a.Max) {
				set[int32(r)] = true
			}
		}
	}
	add(float64(a.Min))
	add(float64(a.Max))
	add(0)
	add((float64(a.Min) + float64(a.Max)) / 2)
	span := float64(a.Max) - float64(a.Min)
	switch {
	case a.Center != nil && *a.Center && a.Min >= 0:
		add(float64(a.Min) + span*(1+dz)/2)
		add(float64(a.Min) + span*(1-dz)/2)
	case a.Min >= 0:
		add(float64(a.Min) + span*dz)
		add(float64(a.Min) + span/4)
		add(float64(a.Min) + 3*span/4)
	default:
		add(float64(a.Max) * dz)
		add(float64(a.Min) * dz)
	}
	out := make([]int32, 0, len(set))
	for r := range set {
		out = append(out, r)
	}
	sort.Slice(out, func(i, j int) bool { return out[i] < out[j] })
	return out
}

// drawAxisCodes: n distinct axis codes: the usual ones (sticks, triggers, hats), or - half of the time - any of the axes
// the kernel names (throttle, rudder, wheel, pressure, tilt, the multi-touch block ...): the code is a name, nothing more.
func drawAxisCodes(t *rapid.T, usual []uint16, n int) []uint16 {
	if rapid.Bool().Draw(t, "anyAxisCode") {
		perm := rapid.Permutation(indices(len(allAbsCodes))).Draw(t, "axisCodes")
		out := make([]uint16, n)
		for i := range out {
			out[i] = allAbsCodes[perm[i]]
		}
		return out
	}
	return usual[:n]
}

func genC06(t *rapid.T) AxisCase {
	d := baseAxisDesc(t)
	m := &d.Mappings[0]
	rg := rapid.SampledFrom(axisRanges).Draw(t, "range")
	a := AxisDef{Sub: "", Code: drawAxisCodes(t, []uint16{uint16(rapid.SampledFrom([]int{0, 1, 2, 5, 0x10}).Draw(t, "code"))}, 1)[0], Min: rg.Min, Max: rg.Max}
	switch rapid.IntRange(0, 2).Draw(t, "kind") {
	case 0:
		a.Type = "cc"
		a.CC = intp(rapid.IntRange(0, 119).Draw(t, "cc"))
	case 1:
		a.Type = "cc"
		cc := rapid.IntRange(0, 119).Draw(t, "cc")
		a.CC = intp(cc)
		a.CCNeg = intp((cc + 1 + rapid.IntRange(0, 117).Draw(t, "ccNegDelta")) % 120)
		if rapid.IntRange(0, 7).Draw(t, "sameController") == 0 {
			// both directions on one controller (and one channel): the distance from the centre, whichever way
			a.CCNeg = intp(cc)
		} else if rapid.Bool().Draw(t, "hasOffNeg") {
			a.OffNeg = intp(rapid.IntRange(0, 15).Draw(t, "offNeg"))
		}
	case 2:
		a.Type = "pitch_bend"
	}
	if rapid.Bool().Draw(t, "hasOff") {
		a.Off = intp(rapid.IntRange(0, 15).Draw(t, "off"))
	}
	if rapid.IntRange(0, 2).Draw(t, "flip") == 0 {
		a.Flip = boolp(true)
	} else if rapid.IntRange(0, 3).Draw(t, "flipFalse") == 0 {
		a.Flip = boolp(false)
	}
	if rapid.Bool().Draw(t, "center") && (rg.Min == 0 || rapid.IntRange(0, 2).Draw(t, "centerOnSigned") == 0) {
		a.Center = boolp(true) // on a signed axis the option has nothing to move
	}
	placeDeadzone(t, m, &a)
	m.Axes = []AxisDef{a}
	dz := effectiveDeadzone(m, &a)

	var raws []int32
	span := int64(a.Max) - int64(a.Min) + 1
	if span <= 1024 {
		for r := int64(a.Min); r <= int64(a.Max); r++ { // every raw value, ascending
			raws = append(raws, int32(r))
		}
		if rapid.Bool().Draw(t, "alsoDown") {
			for r := int64(a.Max); r >= int64(a.Min); r-- {
				raws = append(raws, int32(r))
			}
		}
	} else {
		set := map[int32]bool{}
		for _, r := range interestingRaws(&a, dz) {
			set[r] = true
		}
		n := rapid.IntRange(32, 256).Draw(t, "samples")
		for i := 0; i < n; i++ {
			set[int32(rapid.Int64Range(int64(a.Min), int64(a.Max)).Draw(t, "raw"))] = true
		}
		for r := range set {
			raws = append(raws, r)
		}
		sort.Slice(raws, func(i, j int) bool { return raws[i] < raws[j] })
	}
	// stateful tail: arbitrary (previous, new) pairs, biased to the interesting positions
	inter := interestingRaws(&a, dz)
	tail := rapid.IntRange(0, 40).Draw(t, "tail")
	for i := 0; i < tail; i++ {
		if rapid.Bool().Draw(t, "tailInteresting") {
			raws = append(raws, inter[rapid.IntRange(0, len(inter)-1).Draw(t, "tailIdx")])
		} else {
			raws = append(raws, int32(rapid.Int64Range(int64(a.Min), int64(a.Max)).Draw(t, "tailRaw")))
		}
	}
	steps := make([]Step, len(raws))
	for i, r := range raws {
		steps[i] = Step{T: "abs", Sub: "", Code: a.Code, Val: r}
	}
	// a second sub-handler of the device may expose the same axis code as an independent controller
	if rapid.IntRange(0, 9).Draw(t, "secondSub") < 3 {
		b := AxisDef{Sub: "Touchpad", Code: a.Code, Type: "cc", CC: intp((derefOr(a.CC, 50) + 40) % 120), Min: a.Min, Max: a.Max}
		if rapid.Bool().Draw(t, "secondOwnRange") { // its own event node reports its own range for that code
			rg2 := rapid.SampledFrom(axisRanges).Draw(t, "secondRange")
			b.Min, b.Max = rg2.Min, rg2.Max
		}
		if a.CCNeg != nil && *a.CCNeg == *b.CC {
			b.CC = intp((*b.CC + 1) % 120)
		}
		m.AnalogSubs = append(m.AnalogSubs, AnalogSub{Sub: "Touchpad", Default: floatp(genDeadzone(t, "dz2"))})
		m.Axes = append(m.Axes, b)
		k := rapid.IntRange(1, 12).Draw(t, "secondEvents")
		for i := 0; i < k; i++ {
			pos := rapid.IntRange(0, len(steps)).Draw(t, "insertAt")
			var r int32
			if b.Min == a.Min && b.Max == a.Max && rapid.Bool().Draw(t, "secondInteresting") {
				r = inter[rapid.IntRange(0, len(inter)-1).Draw(t, "secondIdx")]
			} else if rapid.IntRange(0, 3).Draw(t, "secondEnd") == 0 {
				r = rapid.SampledFrom([]int32{b.Min, b.Max}).Draw(t, "secondEndStop")
			} else {
				r = int32(rapid.Int64Range(int64(b.Min), int64(b.Max)).Draw(t, "secondRaw"))
			}
			steps = append(steps[:pos], append([]Step{{T: "abs", Sub: "Touchpad", Code: a.Code, Val: r}}, steps[pos:]...)...)
		}
	}
	// a second event node with the SAME name (a twin adapter: the configuration cannot tell the two apart) that reports its own
	// range for the axis; it is heard after the first one, and its positions are positions within its own range
	if rapid.IntRange(0, 7).Draw(t, "twinNode") == 0 {
		rg2 := rapid.SampledFrom(axisRanges).Draw(t, "twinRange")
		d.TwinNodes = []string{""}
		d.TwinRanges = []TwinRange{{Sub: "", Code: a.Code, Min: rg2.Min, Max: rg2.Max}}
		b := a
		b.Min, b.Max = rg2.Min, rg2.Max
		interB := interestingRaws(&b, dz)
		for k := rapid.IntRange(2, 40).Draw(t, "twinEvents"); k > 0; k-- {
			var r int32
			switch rapid.IntRange(0, 3).Draw(t, "twinKind") {
			case 0:
				r = rapid.SampledFrom([]int32{b.Min, b.Max}).Draw(t, "twinEndStop")
			case 1:
				r = interB[rapid.IntRange(0, len(interB)-1).Draw(t, "twinIdx")]
			default:
				r = int32(rapid.Int64Range(int64(b.Min), int64(b.Max)).Draw(t, "twinRaw"))
			}
			steps = append(steps, Step{T: "abs", Sub: "", Node: 1, Code: a.Code, Val: r})
		}
	}
	// further mappings that differ in their deadzones only, and mapping_up / mapping_down taps and pair resets between the moves
	if rapid.IntRange(0, 3).Draw(t, "moreMappings") == 0 {
		d.Actions = append(d.Actions, ActionDef{Code: 59, Action: "mapping_up"}, ActionDef{Code: 60, Action: "mapping_down"})
		base := d.Mappings[0]
		for k := rapid.IntRange(1, 2).Draw(t, "extraMappings"); k > 0; k-- {
			m2 := MappingDef{Name: []string{"C", "B"}[k-1]}
			for _, as := range base.AnalogSubs {
				m2.AnalogSubs = append(m2.AnalogSubs, AnalogSub{Sub: as.Sub, Default: floatp(genDeadzone(t, "dzDefaultOther"))})
			}
			for _, ax := range base.Axes {
				ax.Deadzone = nil
				if rapid.Bool().Draw(t, "dzSpecificOther") {
					ax.Deadzone = floatp(genDeadzone(t, "dzOtherMapping"))
				}
				m2.Axes = append(m2.Axes, ax)
			}
			d.Mappings = append(d.Mappings, m2)
		}
		tapKey := func(code uint16) []Step {
			return []Step{{T: "key", Code: code, Val: 1}, {T: "key", Code: code, Val: 0}}
		}
		for k := rapid.IntRange(2, 8).Draw(t, "mappingOps"); k > 0; k-- {
			var ins []Step
			switch rapid.IntRange(0, 3).Draw(t, "mappingOp") {
			case 0, 1:
				ins = tapKey(59)
			case 2:
				ins = tapKey(60)
			default: // both keys of the pair: back to the first mapping
				first, second := uint16(59), uint16(60)
				if rapid.Bool().Draw(t, "downFirst") {
					first, second = second, first
				}
				ins = []Step{{T: "key", Code: first, Val: 1}, {T: "key", Code: second, Val: 1}, {T: "key", Code: second, Val: 0}, {T: "key", Code: first, Val: 0}}
			}
			pos := rapid.IntRange(0, len(steps)).Draw(t, "mappingOpAt")
			steps = append(steps[:pos], append(ins, steps[pos:]...)...)
		}
	}
	return AxisCase{D: d, Steps: steps, Logs: rapid.IntRange(0, 7).Draw(t, "logs") == 0}
}

func derefOr(p *int, def int) int {
	if p == nil {
		return def
	}
	return *p
}

func genC07(t *rapid.T) AxisCase {
	d := baseAxisDesc(t)
	m := &d.Mappings[0]
	learn := uint16(59)
	d.Actions = []ActionDef{{Code: learn, Action: "cc_learning"}}
	m.AnalogSubs = []AnalogSub{{Sub: "", Default: floatp(genDeadzone(t, "subdz"))}}
	nAxes := rapid.IntRange(1, 3).Draw(t, "axes")
	ccs := rapid.Permutation(indices(120)).Draw(t, "ccs")
	c07Codes := drawAxisCodes(t, []uint16{0, 1, 3}, nAxes)
	for i := 0; i < nAxes; i++ {
		rg := rapid.SampledFrom([]axisRange{{-128, 127}, {-32768, 32767}, {0, 255}, {0, 1023}, {-1, 1}, {-127, 127}, {-128, 127}, {-32768, 32767}, {0, 255},
			{0, 2}, {0, 100}, {-100, 100}, {0, 256}, {0, 4095}, {-2048, 2047}, {0, 65535}, {-2, 2}, {1, 255}, {64, 192}, {1472, 5472}}).Draw(t, "range")
		a := AxisDef{Sub: "", Code: c07Codes[i], Type: "cc", Min: rg.Min, Max: rg.Max, CC: intp(ccs[2*i]), CCNeg: intp(ccs[2*i+1])}
		if (rg.Min == 0 && rapid.IntRange(0, 3).Draw(t, "center") > 0) || (rg.Min < 0 && rapid.IntRange(0, 5).Draw(t, "centerOnSigned") == 0) {
			a.Center = boolp(true) // on a signed axis the option has nothing to move
		}
		if rapid.Bool().Draw(t, "off") {
			a.Off = intp(rapid.IntRange(0, 15).Draw(t, "offv"))
		}
		if rapid.Bool().Draw(t, "offn") {
			a.OffNeg = intp(rapid.IntRange(0, 15).Draw(t, "offnv"))
		}
		if rapid.IntRange(0, 2).Draw(t, "flip") == 0 {
			a.Flip = boolp(true)
		}
		if rapid.Bool().Draw(t, "ownDZ") {
			a.Deadzone = floatp(rapid.SampledFrom([]float64{0, 0, 0.05, 0.1, 0.3}).Draw(t, "dz"))
		}
		m.Axes = append(m.Axes, a)
	}
	// a second sub-handler of the same device may expose the same axis codes (e.g. stick and touchpad both report
	// ABS_X): its axes are independent ones, with their own controllers
	if rapid.IntRange(0, 9).Draw(t, "secondSub") < 4 {
		m.AnalogSubs = append(m.AnalogSubs, AnalogSub{Sub: "Touchpad", Default: floatp(genDeadzone(t, "subdz2"))})
		for i := 0; i < nAxes; i++ {
			b := m.Axes[i]
			b.Sub = "Touchpad"
			b.CC, b.CCNeg = intp(ccs[2*nAxes+2*i]), intp(ccs[2*nAxes+2*i+1])
			b.Deadzone = nil
			if rapid.Bool().Draw(t, "flip2") {
				b.Flip = boolp(true)
			} else {
				b.Flip = nil
			}
			m.Axes = append(m.Axes, b)
		}
	}
	nAll := len(m.Axes)
	n := rapid.IntRange(1, 40).Draw(t, "len")
	var steps []Step
	learnDown := false
	side := make([]int, nAll)
	for len(steps) < n {
		if rapid.IntRange(0, 9).Draw(t, "learnToggle") == 0 {
			learnDown = !learnDown
			v := int32(0)
			if learnDown {
				v = 1
			}
			steps = append(steps, Step{T: "key", Code: learn, Val: v})
			continue
		}
		i := rapid.IntRange(0, nAll-1).Draw(t, "axis")
		a := &m.Axes[i]
		lo, hi := float64(a.Min), float64(a.Max)
		mid := 0.0
		if a.Min >= 0 {
			mid = (lo + hi) / 2
		}
		// alternate sides with p ~ 0.5 so that repeated crossings are frequent
		if rapid.Bool().Draw(t, "cross") {
			if side[i] >= 0 {
				side[i] = -1
			} else {
				side[i] = 1
			}
		}
		var pos float64
		switch rapid.IntRange(0, 6).Draw(t, "poskind") {
		case 0: // end stop of the current side
			if side[i] < 0 {
				pos = lo
			} else {
				pos = hi
			}
		case 1: // exact centre
			pos = mid
		case 2: // tiny step around the centre
			pos = mid + float64(side[i])*float64(rapid.IntRange(0, 3).Draw(t, "tiny"))
		case 3: // around half travel
			f := 0.5 + float64(rapid.IntRange(-2, 2).Draw(t, "halfd"))/100
			if side[i] < 0 {
				pos = mid + (lo-mid)*f
			} else {
				pos = mid + (hi-mid)*f
			}
		default:
			f := float64(rapid.IntRange(0, 1000).Draw(t, "frac")) / 1000
			if side[i] < 0 {
				pos = mid + (lo-mid)*f
			} else {
				pos = mid + (hi-mid)*f
			}
		}
		r := math.Round(pos)
		if r < lo {
			r = lo
		}
		if r > hi {
			r = hi
		}
		steps = append(steps, Step{T: "abs", Sub: a.Sub, Code: a.Code, Val: int32(r)})
	}
	return AxisCase{D: d, Steps: steps, Logs: rapid.IntRange(0, 7).Draw(t, "logs") == 0}
}

func genC08(t *rapid.T) AxisCase {
	d := baseAxisDesc(t)
	m := &d.Mappings[0]
	d.Octave = rapid.SampledFrom([]int{0, 0, 1, -1, 4, -4}).Draw(t, "octave")
	d.Semitone = rapid.SampledFrom([]int{0, 0, 1, -3, 7}).Draw(t, "semitone")
	acts := []string{"octave_up", "octave_down", "semitone_up", "semitone_down", "channel_up", "channel_down"}
	for i, a := range acts {
		d.Actions = append(d.Actions, ActionDef{Code: uint16(59 + i), Action: a})
	}
	m.AnalogSubs = []AnalogSub{{Sub: "", Default: floatp(rapid.SampledFrom([]float64{0, 0, 0.1, 0.2}).Draw(t, "subdz"))}}
	nAxes := rapid.IntRange(1, 2).Draw(t, "axes")
	c08Codes := drawAxisCodes(t, []uint16{0x10, 0x11}, nAxes)
	for i := 0; i < nAxes; i++ {
		rg := rapid.SampledFrom([]axisRange{{-1, 1}, {-1, 1}, {-32768, 32767}, {-128, 127}, {0, 255}, {0, 1023}, {-1, 1}, {-32768, 32767}, {0, 255},
			{0, 2}, {0, 1}, {0, 4}, {0, 100}, {-100, 100}, {0, 256}, {0, 4095}, {-2, 2}, {0, 65535}, {1, 255}, {64, 192}, {100, 200}, {-255, 0}, {-1, 0}}).Draw(t, "range")
		a := AxisDef{Sub: "", Code: c08Codes[i], Type: "key", Min: rg.Min, Max: rg.Max}
		note := rapid.OneOf(rapid.IntRange(0, 127), rapid.SampledFrom([]int{0, 1, 126, 127, 60})).Draw(t, "note")
		a.Note = intp(note)
		if rapid.IntRange(0, 2).Draw(t, "hasNeg") > 0 {
			neg := rapid.IntRange(0, 126).Draw(t, "noteNeg")
			if neg >= note {
				neg++ // distinct from the positive note
			}
			a.NoteNeg = intp(neg)
		}
		if (rg.Min == 0 && rapid.Bool().Draw(t, "center")) || (rg.Min < 0 && rapid.IntRange(0, 5).Draw(t, "centerOnSigned") == 0) {
			a.Center = boolp(true) // on a signed axis the option has nothing to move
		}
		if rapid.IntRange(0, 2).Draw(t, "flip") == 0 {
			a.Flip = boolp(true)
		}
		if rapid.Bool().Draw(t, "ownDZ") {
			a.Deadzone = floatp(rapid.SampledFrom([]float64{0, 0, 0.1, 0.3}).Draw(t, "dz"))
		}
		// the emulated keys of a direction may sound on another channel (channel_offset / channel_offset_negative)
		if rapid.IntRange(0, 2).Draw(t, "hasOff") == 0 {
			a.Off = intp(rapid.SampledFrom([]int{1, 2, 9, 15}).Draw(t, "off"))
		}
		if rapid.IntRange(0, 2).Draw(t, "hasOffNeg") == 0 {
			a.OffNeg = intp(rapid.SampledFrom([]int{1, 3, 15}).Draw(t, "offNeg"))
		}
		m.Axes = append(m.Axes, a)
	}
	if rapid.IntRange(0, 9).Draw(t, "secondSub") < 3 {
		m.AnalogSubs = append(m.AnalogSubs, AnalogSub{Sub: "Touchpad", Default: floatp(0)})
		for i := 0; i < nAxes; i++ {
			b := m.Axes[i]
			b.Sub = "Touchpad"
			b.Deadzone = nil
			b.Note = intp((*b.Note + 17) % 128)
			if b.NoteNeg != nil {
				b.NoteNeg = intp((*b.NoteNeg + 29) % 128)
				if *b.NoteNeg == *b.Note {
					b.NoteNeg = intp((*b.NoteNeg + 1) % 128)
				}
			}
			m.Axes = append(m.Axes, b)
		}
	}
	// further mappings in which the same axes emulate keys with the same shaping but other notes, a direction more or less,
	// other channel offsets; mapping_up / mapping_down are tapped between the positions like the other actions (C08's
	// quantifier names octave/semitone/channel actions; the lifecycle it states is unconditional, and the Note Off has to
	// match the Note On that was sent whatever the configuration says by then)
	if rapid.IntRange(0, 3).Draw(t, "moreMappings") == 0 {
		d.Actions = append(d.Actions, ActionDef{Code: 65, Action: "mapping_up"}, ActionDef{Code: 66, Action: "mapping_down"})
		base := d.Mappings[0]
		for k := rapid.IntRange(1, 2).Draw(t, "extraMappings"); k > 0; k-- {
			m2 := MappingDef{Name: []string{"C", "B"}[k-1], AnalogSubs: append([]AnalogSub{}, base.AnalogSubs...)}
			for _, ax := range base.Axes {
				switch rapid.IntRange(0, 3).Draw(t, "axisInOtherMapping") {
				case 0: // a direction more or less
					if ax.NoteNeg != nil {
						ax.NoteNeg = nil
					} else {
						ax.NoteNeg = intp((*ax.Note + 7) % 128)
					}
				case 1: // other notes
					ax.Note = intp((*ax.Note + 5) % 128)
					if ax.NoteNeg != nil && *ax.NoteNeg == *ax.Note {
						ax.NoteNeg = intp((*ax.NoteNeg + 1) % 128)
					}
				case 2: // other channels
					ax.Off = intp(rapid.SampledFrom([]int{0, 2, 15}).Draw(t, "offOther"))
					ax.OffNeg = nil
				}
				m2.Axes = append(m2.Axes, ax)
			}
			d.Mappings = append(d.Mappings, m2)
		}
		m = &d.Mappings[0]
	}
	nAll := len(m.Axes)
	n := rapid.IntRange(1, 40).Draw(t, "len")
	var steps []Step
	for len(steps) < n {
		if rapid.IntRange(0, 9).Draw(t, "action") < 3 {
			code := d.Actions[rapid.IntRange(0, len(d.Actions)-1).Draw(t, "act")].Code
			k := rapid.IntRange(1, 3).Draw(t, "taps")
			for j := 0; j < k; j++ {
				steps = append(steps, Step{T: "key", Code: code, Val: 1}, Step{T: "key", Code: code, Val: 0})
			}
			continue
		}
		a := &m.Axes[rapid.IntRange(0, nAll-1).Draw(t, "axis")]
		lo, hi := float64(a.Min), float64(a.Max)
		var f float64 // position as a fraction of the range
		switch rapid.IntRange(0, 5).Draw(t, "poskind") {
		case 0:
			f = 0
		case 1:
			f = 1
		case 2:
			f = 0.5
		case 3: // around the thresholds (0.49 / 0.5 of travel on either side)
			th := rapid.SampledFrom([]float64{0.25, 0.255, 0.245, 0.75, 0.745, 0.755, 0.2, 0.8}).Draw(t, "th")
			f = th + float64(rapid.IntRange(-3, 3).Draw(t, "thd"))/1000
		default:
			f = float64(rapid.IntRange(0, 1000).Draw(t, "frac")) / 1000
		}
		r := math.Round(lo + (hi-lo)*f)
		steps = append(steps, Step{T: "abs", Sub: a.Sub, Code: a.Code, Val: int32(r)})
		// now and then the stick creeps across a threshold one raw unit at a time (on a 16-bit axis that is 1/32768 of travel
		// per event) and stays there
		if rapid.IntRange(0, 11).Draw(t, "creep") == 0 {
			th := rapid.SampledFrom([]float64{0.25, 0.245, 0.75, 0.755}).Draw(t, "creepAt")
			r0 := int64(math.Round(lo + (hi-lo)*th))
			dir := int64(1)
			if rapid.Bool().Draw(t, "creepDown") {
				dir = -1
			}
			for k := int64(-3); k <= 3; k++ {
				v := r0 + dir*k
				if v < int64(a.Min) || v > int64(a.Max) {
					continue
				}
				steps = append(steps, Step{T: "abs", Sub: a.Sub, Code: a.Code, Val: int32(v)})
			}
		}
	}
	return AxisCase{D: d, Steps: steps, Logs: rapid.IntRange(0, 7).Draw(t, "logs") == 0}
}

func TestC06(t *testing.T) { ReplayOrRapid(t, NewRun(t, "C06"), checkC06, genC06) }
func TestC07(t *testing.T) { ReplayOrRapid(t, NewRun(t, "C07"), checkC07, genC07) }
func TestC08(t *testing.T) { ReplayOrRapid(t, NewRun(t, "C08"), checkC08, genC08) }

func genC07Burst(t *rapid.T) C07BurstCase {
	c := genC07(t)
	// more positions than a queue of 8 holds, alternating sides often (genC07 does that), the tail of them back to back
	for len(c.Steps) < 24 {
		c.Steps = append(c.Steps, c.Steps...)
	}
	return C07BurstCase{C: c, BurstFrom: rapid.IntRange(0, len(c.Steps)/2).Draw(t, "burstFrom"),
		QueueCap: rapid.SampledFrom([]int{8, 8, 8, 1, 2, 32}).Draw(t, "queueCap"), ReaderDelayUs: rapid.SampledFrom([]int{50, 100, 200, 400}).Draw(t, "readerUs")}
}

func TestC07Burst(t *testing.T) { ReplayOrRapid(t, NewRun(t, "C07"), checkC07Burst, genC07Burst) }
