package harness

import (
	"fmt"
	"os"
	"runtime"
	"sort"
	"strings"
	"sync/atomic"
	"syscall"
	"time"

	"github.com/gethiox/HIDI/internal/pkg/input"
	"github.com/gethiox/HIDI/internal/pkg/midi"
	"github.com/gethiox/HIDI/internal/pkg/midi/device"
	"github.com/gethiox/HIDI/internal/pkg/midi/device/config"
	"github.com/holoplot/go-evdev"
)

// Step is one input event of a history.
type Step struct {
	T    string `json:"t"`              // "key" | "abs" | "rep" (key repeat noise) | "midi" (MIDI-in message) | "other" (any other kernel event)
	Typ  uint16 `json:"typ,omitempty"`  // "other": the event type (EV_SYN with a code other than SYN_REPORT, EV_MSC, EV_REL, EV_LED, EV_SW, ...)
	Sub  string `json:"sub,omitempty"`  // sub-handler name (Handler.Name)
	Node int    `json:"node,omitempty"` // 1: the second event node of the device that carries the same sub-handler name
	Code uint16 `json:"code"`
	Val  int32  `json:"val"`
	Midi []byte `json:"midi,omitempty"`
	// NoFence: the next step follows at once; what this step emitted is collected with the next step that is fenced
	// (bursts of events against a slow reader of the MIDI output, see EngineOpts.QueueCap)
	NoFence bool `json:"nofence,omitempty"`
}

func (s Step) String() string {
	switch s.T {
	case "key":
		if s.Node != 0 {
			return fmt.Sprintf("key %s(node %d)/%d=%d", s.Sub, s.Node, s.Code, s.Val)
		}
		return fmt.Sprintf("key %s/%d=%d", s.Sub, s.Code, s.Val)
	case "abs":
		return fmt.Sprintf("abs %s/%d=%d", s.Sub, s.Code, s.Val)
	case "rep":
		return fmt.Sprintf("repeat %s/%d", s.Sub, s.Code)
	case "other":
		return fmt.Sprintf("event type 0x%02x %s/%d=%d", s.Typ, s.Sub, s.Code, s.Val)
	}
	return fmt.Sprintf("%s %v", s.T, s.Midi)
}

// Msg is one emitted MIDI message in comparable form.
type Msg struct {
	Raw []byte
}

func (m Msg) String() string { return fmt.Sprintf("% x", m.Raw) }

// StepResult is what the device did in response to one step.
type StepResult struct {
	Out     [][]byte
	State   device.State
	Signals int
}

type RunResult struct {
	Steps    []StepResult
	Tail     [][]byte // emitted after the event stream was closed (disconnect clean-up)
	Late     [][]byte // emitted after ProcessEvents returned (must be empty)
	Returned bool     // ProcessEvents returned within the guard
	Panic    string   // panic recovered from ProcessEvents / NewDevice
	Initial  device.State
	Stuck    string // goroutine dump when it did not return
}

type EngineOpts struct {
	NoLogs      bool
	OpenRGBPort int
	ReturnGuard time.Duration
	// BusySinkMs > 0: when the event stream ends, the reader of the device's MIDI output is busy for this long (the
	// output queue is full and nothing is taken from it), then reads on.
	BusySinkMs int
	// Bystander: a second device of the same configuration (another keyboard of the same model) that is connected for the
	// whole run; these steps are played on it before the history starts, its keys stay as they are, and it is
	// disconnected after the device under test. Nothing it does may show in the other device's output.
	Bystander []Step
	// QueueCap > 0: the device's MIDI output queue has this capacity (the application's is 8) and is read by a consumer that
	// takes ReaderDelayUs microseconds per message (a MIDI port at hardware speed); everything still arrives, later.
	QueueCap      int
	ReaderDelayUs int
}

// axisInfosOf collects the AbsInfo of the axes one sub-handler (event node) reports.
func axisInfosOf(d *Desc, sub string) map[evdev.EvCode]evdev.AbsInfo {
	infos := map[evdev.EvCode]evdev.AbsInfo{}
	for _, m := range d.Mappings {
		for _, a := range m.Axes {
			if a.Sub == sub {
				infos[evdev.EvCode(a.Code)] = evdev.AbsInfo{Minimum: a.Min, Maximum: a.Max}
			}
		}
	}
	return infos
}

// setEventName gives a handler its event-node name (unexported in package input). Builds with the tag "verif"
// (every build of ./check) replace it with the hook input.VerifDeviceInfo; without the hook all handlers share the name "".
var setEventName = func(event string, di input.DeviceInfo) input.DeviceInfo { return di }

func subHandlers(d *Desc) []string {
	set := map[string]bool{"": true}
	for _, m := range d.Mappings {
		for _, s := range m.KeySubs {
			set[s] = true
		}
		for _, s := range m.AnalogSubs {
			set[s.Sub] = true
		}
	}
	out := make([]string, 0, len(set))
	for s := range set {
		out = append(out, s)
	}
	sort.Strings(out)
	return out
}

func makeInputDevice(d *Desc, name string) input.Device {
	dev := input.Device{
		ID:         input.InputID{Bus: d.ID[0], Vendor: d.ID[1], Product: d.ID[2], Version: d.ID[3]},
		Name:       name,
		DeviceType: input.KeyboardDevice,
		AbsInfos:   map[string]map[evdev.EvCode]evdev.AbsInfo{},
	}
	// every sub-handler is an event node of its own, with the ranges of the axes it reports
	for i, s := range subHandlers(d) {
		di := setEventName(fmt.Sprintf("event%d", 20+i), input.DeviceInfo{Name: strings.TrimSpace(name + " " + s)})
		dev.Handlers = append(dev.Handlers, input.Handler{Name: s, DeviceInfo: di})
		infos := dev.AbsInfos[di.Event()]
		if infos == nil {
			infos = map[evdev.EvCode]evdev.AbsInfo{}
			dev.AbsInfos[di.Event()] = infos
		}
		for c, ai := range axisInfosOf(d, s) {
			infos[c] = ai
		}
	}
	// second event nodes that carry the name of an existing sub-handler (two pads of one model behind one Bluetooth
	// adapter, a twin joystick adapter): same name, same configuration, own event node
	for i, s := range d.TwinNodes {
		di := setEventName(fmt.Sprintf("event%d", 40+i), input.DeviceInfo{Name: strings.TrimSpace(name + " " + s)})
		dev.Handlers = append(dev.Handlers, input.Handler{Name: s, DeviceInfo: di})
		infos := axisInfosOf(d, s)
		for _, tr := range d.TwinRanges {
			if tr.Sub == s {
				infos[evdev.EvCode(tr.Code)] = evdev.AbsInfo{Minimum: tr.Min, Maximum: tr.Max}
			}
		}
		dev.AbsInfos[di.Event()] = infos
	}
	return dev
}

// SK is the key under which the harness files what belongs to the event node a step comes from: the sub-handler name, and
// for the second node with that name a marker (the configuration cannot tell the two apart, the hardware keys are distinct).
func (s Step) SK() string {
	if s.Node == 0 {
		return s.Sub
	}
	return s.Sub + "\x00node1"
}

func subOfSK(sk string) string {
	if i := strings.IndexByte(sk, 0); i >= 0 {
		return sk[:i]
	}
	return sk
}

func handlerForNode(dev *input.Device, sub string, node int) input.Handler {
	seen := 0
	for _, h := range dev.Handlers {
		if h.Name == sub {
			if seen == node {
				return h
			}
			seen++
		}
	}
	return handlerFor(dev, sub)
}

func handlerFor(dev *input.Device, sub string) input.Handler {
	for _, h := range dev.Handlers {
		if h.Name == sub {
			return h
		}
	}
	return input.Handler{Name: sub, DeviceInfo: input.DeviceInfo{Name: dev.Name + " " + sub}}
}

func toInputEvent(dev *input.Device, s Step) *input.InputEvent {
	ev := evdev.InputEvent{Code: evdev.EvCode(s.Code), Value: s.Val}
	switch s.T {
	case "key":
		ev.Type = evdev.EV_KEY
	case "rep":
		ev.Type = evdev.EV_KEY
		ev.Value = 2
	case "abs":
		ev.Type = evdev.EV_ABS
	case "other":
		ev.Type = evdev.EvType(s.Typ)
	}
	return &input.InputEvent{Source: handlerForNode(dev, s.Sub, s.Node), Event: ev}
}

func drain(ch chan midi.Event) [][]byte {
	var out [][]byte
	for {
		select {
		case e := <-ch:
			out = append(out, append([]byte(nil), e...))
		default:
			return out
		}
	}
}

// RunDevice drives the real device.Device with the history; the event stream is closed after the
// last step (disconnect).  Every step is fenced with an EV_SYN event: processEvent ignores it and
// its receipt on the unbuffered channel happens after the previous event was fully processed.
func RunDevice(cfg config.Config, d *Desc, steps []Step, opts EngineOpts) (res RunResult) {
	if opts.ReturnGuard == 0 {
		opts.ReturnGuard = 20 * time.Second
	}
	if opts.OpenRGBPort == 0 {
		opts.OpenRGBPort = 1 // nothing listens there; the LED goroutine never gets past its first wait in these runs
	}
	out := make(chan midi.Event, 8192)
	devOut := out
	quiesce := func() {}
	if opts.QueueCap > 0 {
		devOut = make(chan midi.Event, opts.QueueCap)
		var inflight int32
		stopFwd := make(chan struct{})
		defer close(stopFwd)
		go func(q chan midi.Event) {
			for {
				select {
				case e := <-q:
					atomic.StoreInt32(&inflight, 1)
					if opts.ReaderDelayUs > 0 {
						time.Sleep(time.Duration(opts.ReaderDelayUs) * time.Microsecond)
					}
					out <- e
					atomic.StoreInt32(&inflight, 0)
				case <-stopFwd:
					return
				}
			}
		}(devOut)
		q := devOut
		quiesce = func() {
			// every message of the steps so far is in the queue or beyond it (the device had taken the fence): wait until the
			// slow reader has passed them all on
			for stable := 0; stable < 3; {
				if len(q) == 0 && atomic.LoadInt32(&inflight) == 0 {
					stable++
				} else {
					stable = 0
				}
				time.Sleep(20 * time.Microsecond)
			}
		}
	}
	in := make(chan *input.InputEvent)
	sigs := make(chan os.Signal, 1024)
	midiIn := make(chan midi.Event)
	inDev := makeInputDevice(d, "verif")

	var dev device.Device
	func() {
		defer func() {
			if p := recover(); p != nil {
				res.Panic = fmt.Sprintf("NewDevice: %v", p)
			}
		}()
		dev = device.NewDevice(inDev, config.DeviceConfig{ConfigFile: "verif.toml", ConfigType: "user", Config: cfg}, devOut, midiIn, opts.NoLogs, opts.OpenRGBPort, sigs)
	}()
	if res.Panic != "" {
		return res
	}
	func() {
		defer func() {
			if p := recover(); p != nil {
				res.Panic = fmt.Sprintf("State: %v", p)
			}
		}()
		res.Initial = dev.State()
	}()
	if res.Panic != "" {
		return res
	}

	if len(opts.Bystander) > 0 {
		stop, problem := startBystander(cfg, d, opts)
		if problem != "" {
			res.Stuck = "bystander device: " + problem
			return res
		}
		defer stop()
	}

	done := make(chan string, 1)
	go func() {
		defer func() {
			if p := recover(); p != nil {
				buf := make([]byte, 1<<14)
				buf = buf[:runtime.Stack(buf, false)]
				done <- fmt.Sprintf("%v\n%s", p, buf)
				return
			}
			done <- ""
		}()
		dev.ProcessEvents(in)
	}()

	syn := &input.InputEvent{Source: handlerFor(&inDev, ""), Event: evdev.InputEvent{Type: evdev.EV_SYN}}
	send := func(ev *input.InputEvent) bool {
		select {
		case in <- ev:
			return true
		case p := <-done:
			res.Panic = p
			if p == "" {
				res.Panic = "ProcessEvents returned while the event stream was still open"
			}
			return false
		case <-time.After(opts.ReturnGuard):
			res.Stuck = allStacks()
			return false
		}
	}
	alive := true
	for _, s := range steps {
		if s.T == "midi" {
			select {
			case midiIn <- midi.Event(s.Midi):
			case <-time.After(opts.ReturnGuard):
				res.Stuck = allStacks()
				alive = false
			}
			if !alive {
				break
			}
			res.Steps = append(res.Steps, StepResult{State: dev.State()})
			continue
		}
		if s.NoFence {
			if !send(toInputEvent(&inDev, s)) {
				alive = false
				break
			}
			res.Steps = append(res.Steps, StepResult{})
			continue
		}
		if !send(toInputEvent(&inDev, s)) || !send(syn) {
			alive = false
			break
		}
		quiesce()
		sr := StepResult{Out: drain(out), State: dev.State()}
		for {
			select {
			case <-sigs:
				sr.Signals++
				continue
			default:
			}
			break
		}
		res.Steps = append(res.Steps, sr)
	}
	if !alive {
		return res
	}
	if opts.BusySinkMs > 0 {
		return busySinkDisconnect(res, opts, in, out, done)
	}
	close(in)
	select {
	case p := <-done:
		res.Panic = p
		res.Returned = p == ""
	case <-time.After(opts.ReturnGuard):
		res.Stuck = allStacks()
		return res
	}
	quiesce()
	res.Tail = drain(out)
	// nothing may be emitted once processing has ended
	runtime.Gosched()
	quiesce()
	res.Late = drain(out)
	return res
}

// busySinkDisconnect ends the event stream while nothing takes the device's output: the queue is filled up
// with marker messages of the harness, stays full for BusySinkMs, and is read again afterwards. Tail is what
// had been emitted when ProcessEvents returned, Late what was emitted after that.
func busySinkDisconnect(res RunResult, opts EngineOpts, in chan *input.InputEvent, out chan midi.Event, done chan string) RunResult {
	b := busyDisconnect(in, out, done, opts.BusySinkMs, opts.ReturnGuard)
	res.Tail, res.Late, res.Panic, res.Returned = b.Tail, b.Late, b.Panic, b.Returned
	if b.Stuck {
		res.Stuck = allStacks()
	}
	return res
}

type busyResult struct {
	Tail, Late     [][]byte
	Panic          string
	Returned       bool
	Stuck          bool
	EndedWhileFull bool // ProcessEvents returned while the queue was still full
	ReturnedIn     time.Duration
}

func busyDisconnect(in chan *input.InputEvent, out chan midi.Event, done chan string, busyMs int, guardFor time.Duration) (r busyResult) {
	filler := midi.Event{0xFE}
	isFiller := func(e midi.Event) bool { return len(e) == 1 && e[0] == 0xFE }
	take := func(dst *[][]byte) {
		for {
			select {
			case e := <-out:
				if !isFiller(e) {
					*dst = append(*dst, append([]byte(nil), e...))
				}
			default:
				return
			}
		}
	}
fill:
	for {
		select {
		case out <- filler:
		default:
			break fill
		}
	}
	t0 := time.Now()
	close(in)
	ended := false
	select {
	case p := <-done: // returned although nobody could have received anything it still had to send
		r.Panic, r.Returned, ended, r.EndedWhileFull = p, p == "", true, true
	case <-time.After(time.Duration(busyMs) * time.Millisecond):
	}
	guard := time.After(guardFor)
	for !ended {
		select {
		case e := <-out:
			if !isFiller(e) {
				r.Tail = append(r.Tail, append([]byte(nil), e...))
			}
		case p := <-done:
			r.Panic, r.Returned, ended = p, p == "", true
		case <-guard:
			r.Stuck = true
			return r
		}
	}
	r.ReturnedIn = time.Since(t0)
	if r.EndedWhileFull {
		// the queue held nothing but markers when ProcessEvents returned: whatever shows up now was emitted after the return
		take(&r.Late)
	} else {
		take(&r.Tail)
	}
	// nothing may be emitted once processing has ended
	time.Sleep(150 * time.Millisecond)
	take(&r.Late)
	return r
}

// startBystander runs a second device with its own channels and plays opts.Bystander on it (fenced). The returned
// function disconnects it and waits for its processing to end.
func startBystander(cfg config.Config, d *Desc, opts EngineOpts) (stop func(), problem string) {
	out := make(chan midi.Event, 1<<16)
	in := make(chan *input.InputEvent)
	inDev := makeInputDevice(d, "verif bystander")
	var dev device.Device
	func() {
		defer func() {
			if p := recover(); p != nil {
				problem = fmt.Sprintf("NewDevice: %v", p)
			}
		}()
		dev = device.NewDevice(inDev, config.DeviceConfig{ConfigFile: "verif.toml", ConfigType: "user", Config: cfg}, out, make(chan midi.Event), true, opts.OpenRGBPort, make(chan os.Signal, 1024))
	}()
	if problem != "" {
		return nil, problem
	}
	done := make(chan struct{})
	go func() {
		defer close(done)
		defer func() { recover() }()
		dev.ProcessEvents(in)
	}()
	syn := &input.InputEvent{Source: handlerFor(&inDev, ""), Event: evdev.InputEvent{Type: evdev.EV_SYN}}
	for _, s := range opts.Bystander {
		for _, ev := range []*input.InputEvent{toInputEvent(&inDev, s), syn} {
			select {
			case in <- ev:
			case <-done:
				return nil, "ended while its event stream was open"
			case <-time.After(opts.ReturnGuard):
				return nil, "stopped consuming events\n" + allStacks()
			}
		}
	}
	return func() {
		close(in)
		select {
		case <-done:
		case <-time.After(opts.ReturnGuard):
		}
	}, ""
}

func allStacks() string {
	buf := make([]byte, 1<<20)
	return string(buf[:runtime.Stack(buf, true)])
}

// ---- receiver: what a synthesiser knows (no HIDI logic) ----

type chPitch struct {
	Ch, Pitch byte
}

type Receiver struct {
	Sounding map[chPitch]bool
	CC       map[[2]byte]byte // (channel, controller) -> last value
	CCSeen   map[[2]byte]bool
	Bend     map[byte]int
}

func NewReceiver() *Receiver {
	return &Receiver{Sounding: map[chPitch]bool{}, CC: map[[2]byte]byte{}, CCSeen: map[[2]byte]bool{}, Bend: map[byte]int{}}
}

func (r *Receiver) Feed(m []byte) {
	if len(m) != 3 {
		return
	}
	ch := m[0] & 0x0f
	switch m[0] & 0xf0 {
	case 0x90:
		if m[2] > 0 {
			r.Sounding[chPitch{ch, m[1]}] = true
		} else {
			delete(r.Sounding, chPitch{ch, m[1]})
		}
	case 0x80:
		delete(r.Sounding, chPitch{ch, m[1]})
	case 0xB0:
		r.CC[[2]byte{ch, m[1]}] = m[2]
		r.CCSeen[[2]byte{ch, m[1]}] = true
		if m[1] == 123 {
			for k := range r.Sounding {
				if k.Ch == ch {
					delete(r.Sounding, k)
				}
			}
		}
	case 0xE0:
		r.Bend[ch] = int(m[2])<<7 | int(m[1])
	}
}

func (r *Receiver) SoundingList() []string {
	var out []string
	for k := range r.Sounding {
		out = append(out, fmt.Sprintf("ch%d/%d", k.Ch+1, k.Pitch))
	}
	sort.Strings(out)
	return out
}

// wellFormed is the C05 byte-level monitor.
func wellFormed(m []byte) string {
	if len(m) != 3 {
		return fmt.Sprintf("length %d", len(m))
	}
	switch m[0] & 0xf0 {
	case 0x80, 0x90, 0xB0, 0xE0:
	default:
		return fmt.Sprintf("status byte 0x%02x is not Note On/Off, Control Change or Pitch Bend", m[0])
	}
	if m[1] > 127 || m[2] > 127 {
		return fmt.Sprintf("data byte out of range: % x", m)
	}
	return ""
}

func fmtMsgs(ms [][]byte) string {
	parts := make([]string, len(ms))
	for i, m := range ms {
		parts[i] = fmt.Sprintf("%x", m)
	}
	if len(parts) > 12 {
		parts = append(parts[:12], fmt.Sprintf("…(%d msgs)", len(ms)))
	}
	return "[" + strings.Join(parts, " ") + "]"
}

var _ = syscall.SIGINT
