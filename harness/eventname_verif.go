//go:build verif

package harness

import "github.com/gethiox/HIDI/internal/pkg/input"

func init() { setEventName = input.VerifDeviceInfo }
