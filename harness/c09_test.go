package harness

import (
	"context"
	"crypto/sha256"
	"fmt"
	"os"
	"path/filepath"
	"sort"
	"strings"
	"sync"
	"testing"
	"time"

	"github.com/gethiox/HIDI/internal/pkg/midi/device/config"
	"pgregory.net/rapid"
)

// C09: ParseData is total — a configuration or an error, never a panic or a hang.

type C09Case struct {
	Data []byte `json:"data"` // base64 in JSON
	Text string `json:"text,omitempty"`
}

const c09Watchdog = 10 * time.Second

func checkC09(c C09Case) (bool, *Violation) {
	data := c.Data
	if data == nil {
		data = []byte(c.Text)
	}
	type result struct {
		v   *Violation
		err error
	}
	done := make(chan result, 1)
	go func() {
		var perr error
		v := guard("C09", "panic", func() *Violation {
			_, perr = config.ParseData(data)
			return nil
		})
		done <- result{v, perr}
	}()
	select {
	case r := <-done:
		if r.v != nil {
			r.v.Message = fmt.Sprintf("ParseData panicked on a %d-byte input %q\n%s", len(data), clip(string(data), 400), r.v.Message)
			return true, r.v
		}
		nt := r.err == nil || !strings.HasPrefix(r.err.Error(), "parsing failed:")
		if r.err == nil {
			classify("accepted")
		} else if nt {
			classify("rejected by HIDI's own validation")
		} else {
			classify("rejected by the TOML decoder")
		}
		return nt, nil
	case <-time.After(c09Watchdog):
		return true, violation("C09", "hang", "", "ParseData did not return within %v on a %d-byte input %q", c09Watchdog, len(data), clip(string(data), 400))
	}
}

func clip(s string, n int) string {
	if len(s) > n {
		return s[:n] + "…"
	}
	return s
}

// ---- generators ----

var c09Factory = loadFactoryFiles()

func loadFactoryFiles() []string {
	repo := os.Getenv("VERIF_REPO")
	if repo == "" {
		repo = "/repo"
	}
	var out []string
	files, _ := filepath.Glob(filepath.Join(repo, "cmd/hidi/hidi-config/factory/*/*.toml"))
	sort.Strings(files)
	for _, f := range files {
		if b, err := os.ReadFile(f); err == nil {
			out = append(out, string(b))
		}
	}
	return out
}

var vocabTop = []string{"collision_mode", "exit_sequence", "identifier", "defaults", "action_mapping", "open_rgb", "mapping"}
var vocabAll = []string{"collision_mode", "exit_sequence", "identifier", "bus", "vendor", "product", "version", "uniq", "defaults", "octave",
	"semitone", "channel", "mapping", "velocity", "action_mapping", "open_rgb", "white", "black", "c", "unavailable", "other", "active",
	"active_external", "name", "keys", "subhandler", "map", "analog", "default_deadzone", "type", "cc", "cc_negative", "note",
	"note_negative", "channel_offset", "channel_offset_negative", "action", "action_negative", "flip_axis", "deadzone_at_center",
	"deadzones", "KEY_A", "KEY_ESC", "ABS_X", "ABS_HAT0Y", "x1f", "0", "1", "HIDI", "pool_rate",
	`""`, `"x"`, `" "`, `"KEY_A "`, "x", "xg", "x-1", "x10000", `"a.b"`}

func genScalar(t *rapid.T) string {
	switch rapid.IntRange(0, 13).Draw(t, "scalarKind") {
	case 0:
		return fmt.Sprint(rapid.IntRange(-3, 300).Draw(t, "int"))
	case 1:
		return rapid.SampledFrom([]string{"0x7f", "0o17", "0b101", "1_000", "9223372036854775807", "-9223372036854775808", "99999999999999999999", "+1", "-0"}).Draw(t, "intLit")
	case 2:
		return rapid.SampledFrom([]string{"0.5", "1e3", "-0.0", "inf", "-inf", "nan", "1e400", "3.", ".5", "6.02e+23"}).Draw(t, "float")
	case 3:
		return rapid.SampledFrom([]string{"true", "false", "True"}).Draw(t, "bool")
	case 4:
		return rapid.SampledFrom([]string{"1979-05-27T07:32:00Z", "1979-05-27", "07:32:00", "1979-05-27 07:32:00.999999-07:00"}).Draw(t, "date")
	case 5:
		return tomlString(rapid.SampledFrom([]string{"cc", "key", "action", "pitch_bend", "octave_up", "panic", "interrupt", "off", "c#1", "127", "60,1", "KEY_A", "", "Default", "x"}).Draw(t, "knownString"))
	case 6:
		return tomlString(rapid.StringN(0, 12, 24).Draw(t, "string"))
	case 7:
		return "'" + rapid.SampledFrom([]string{"lit", "c:\\x", ""}).Draw(t, "literal") + "'"
	case 8:
		return `"""` + "multi\nline" + `"""`
	case 9:
		n := rapid.IntRange(0, 3).Draw(t, "arrLen")
		parts := make([]string, n)
		for i := range parts {
			parts[i] = genScalar(t)
		}
		return "[" + strings.Join(parts, ", ") + "]"
	case 10:
		n := rapid.IntRange(0, 3).Draw(t, "tblLen")
		parts := make([]string, n)
		for i := range parts {
			parts[i] = rapid.SampledFrom(vocabAll).Draw(t, "tblKey") + " = " + genScalar(t)
		}
		return "{ " + strings.Join(parts, ", ") + " }"
	case 11:
		return "[[1, 2], [\"a\"]]"
	case 12:
		return "{ type = " + genScalar(t) + " }"
	}
	return "[]"
}

// genSchemaDoc builds syntactically plausible TOML over the schema vocabulary with values of any type,
// dotted keys, and table / array-of-table confusion.
func genSchemaDoc(t *rapid.T) string {
	var b strings.Builder
	lines := rapid.IntRange(0, 30).Draw(t, "lines")
	for i := 0; i < lines; i++ {
		switch rapid.IntRange(0, 9).Draw(t, "lineKind") {
		case 0: // table header
			depth := rapid.IntRange(1, 4).Draw(t, "depth")
			parts := make([]string, depth)
			for j := range parts {
				parts[j] = rapid.SampledFrom(vocabAll).Draw(t, "hdrKey")
			}
			fmt.Fprintf(&b, "[%s]\n", strings.Join(parts, "."))
		case 1: // array-of-tables header
			depth := rapid.IntRange(1, 4).Draw(t, "depth")
			parts := make([]string, depth)
			for j := range parts {
				parts[j] = rapid.SampledFrom(vocabAll).Draw(t, "hdrKey")
			}
			fmt.Fprintf(&b, "[[%s]]\n", strings.Join(parts, "."))
		case 2: // canonical headers of the schema
			b.WriteString(rapid.SampledFrom([]string{"[identifier]", "[defaults]", "[action_mapping]", "[open_rgb]", "[[mapping]]", "[[mapping.keys]]",
				"[mapping.keys.map]", "[[mapping.analog]]", "[mapping.analog.map]", "[mapping.analog.deadzones]", "[mapping.analog.map.ABS_X]", "[mapping]",
				"[mapping.keys]", "[mapping.analog]", "[[mapping.keys.map]]", "[[identifier]]", "[[defaults]]"}).Draw(t, "canonHdr") + "\n")
		case 3: // dotted key
			fmt.Fprintf(&b, "%s.%s = %s\n", rapid.SampledFrom(vocabAll).Draw(t, "k1"), rapid.SampledFrom(vocabAll).Draw(t, "k2"), genScalar(t))
		case 4:
			b.WriteString("# comment\n")
		default:
			fmt.Fprintf(&b, "%s = %s\n", rapid.SampledFrom(vocabAll).Draw(t, "key"), genScalar(t))
		}
	}
	return b.String()
}

// respellKey rewrites the key of "key = value" (or the last part of a "[table]" header) as a quoted key in which some
// letters are replaced by capitals or by characters that lower-case / fold to them (dotted capital I, Kelvin sign, long s):
// matching of such keys differs between strings.ToLower, strings.EqualFold and byte comparison.
func respellKey(t *rapid.T, line string) string {
	fold := func(k string) string {
		rs := []rune(k)
		for n := rapid.IntRange(1, 2).Draw(t, "folds"); n > 0 && len(rs) > 0; n-- {
			i := rapid.IntRange(0, len(rs)-1).Draw(t, "foldAt")
			switch rs[i] {
			case 'i':
				rs[i] = rapid.SampledFrom([]rune{'I', '\u0130', '\u0131'}).Draw(t, "foldI")
			case 'k':
				rs[i] = rapid.SampledFrom([]rune{'K', '\u212a'}).Draw(t, "foldK")
			case 's':
				rs[i] = rapid.SampledFrom([]rune{'S', '\u017f'}).Draw(t, "foldS")
			default:
				rs[i] = []rune(strings.ToUpper(string(rs[i])))[0]
			}
		}
		return `"` + string(rs) + `"`
	}
	trim := strings.TrimSpace(line)
	indent := line[:len(line)-len(strings.TrimLeft(line, " "))]
	switch {
	case strings.HasPrefix(trim, "[") && strings.HasSuffix(trim, "]"):
		open, closeB := "[", "]"
		inner := strings.Trim(trim, "[]")
		if strings.HasPrefix(trim, "[[") {
			open, closeB = "[[", "]]"
		}
		parts := strings.Split(inner, ".")
		if len(parts) == 0 || strings.ContainsAny(parts[len(parts)-1], `" `) {
			return line
		}
		parts[len(parts)-1] = fold(parts[len(parts)-1])
		return indent + open + strings.Join(parts, ".") + closeB
	case strings.Contains(trim, "="):
		j := strings.Index(line, "=")
		k := strings.TrimSpace(line[:j])
		if k == "" || strings.ContainsAny(k, `" .`) {
			return line
		}
		return indent + fold(k) + " " + line[j:]
	}
	return line
}

func mutateText(t *rapid.T, text string) string {
	lines := strings.Split(text, "\n")
	n := rapid.IntRange(1, 3).Draw(t, "mutations")
	for i := 0; i < n && len(lines) > 0; i++ {
		pos := rapid.IntRange(0, len(lines)-1).Draw(t, "line")
		switch rapid.IntRange(0, 11).Draw(t, "mutation") {
		case 11: // respell the key of a line (or the name in a table header): other letter case, or letters that only fold to ASCII
			lines[pos] = respellKey(t, lines[pos])
		case 0: // delete a line
			lines = append(lines[:pos], lines[pos+1:]...)
		case 1: // duplicate a line
			lines = append(lines[:pos+1], lines[pos:]...)
		case 2: // retype a value
			if j := strings.Index(lines[pos], "="); j >= 0 {
				lines[pos] = lines[pos][:j+1] + " " + genScalar(t)
			}
		case 3: // rename a key
			if j := strings.Index(lines[pos], "="); j >= 0 {
				lines[pos] = strings.Repeat(" ", len(lines[pos])-len(strings.TrimLeft(lines[pos], " "))) + rapid.SampledFrom(vocabAll).Draw(t, "newKey") + " " + lines[pos][j:]
			}
		case 4: // truncate the document at a byte
			joined := strings.Join(lines, "\n")
			cut := rapid.IntRange(0, len(joined)).Draw(t, "cut")
			lines = strings.Split(joined[:cut], "\n")
		case 5: // delete a field inside an inline table
			l := lines[pos]
			if a, b := strings.Index(l, "{"), strings.LastIndex(l, "}"); a >= 0 && b > a {
				fields := strings.Split(l[a+1:b], ",")
				k := rapid.IntRange(0, len(fields)-1).Draw(t, "field")
				fields = append(fields[:k], fields[k+1:]...)
				lines[pos] = l[:a+1] + strings.Join(fields, ",") + l[b:]
			}
		case 6: // swap with another line
			other := rapid.IntRange(0, len(lines)-1).Draw(t, "other")
			lines[pos], lines[other] = lines[other], lines[pos]
		case 7: // [x] <-> [[x]]
			l := strings.TrimSpace(lines[pos])
			if strings.HasPrefix(l, "[[") {
				lines[pos] = strings.Replace(strings.Replace(lines[pos], "[[", "[", 1), "]]", "]", 1)
			} else if strings.HasPrefix(l, "[") {
				lines[pos] = strings.Replace(strings.Replace(lines[pos], "[", "[[", 1), "]", "]]", 1)
			}
		case 8: // insert a random schema line
			lines = append(lines[:pos+1], append([]string{rapid.SampledFrom(vocabAll).Draw(t, "insKey") + " = " + genScalar(t)}, lines[pos+1:]...)...)
		case 10: // blank a key name (quoted empty key) or a quoted value
			l := lines[pos]
			if j := strings.Index(l, "="); j > 0 && rapid.Bool().Draw(t, "blankKey") {
				indent := l[:len(l)-len(strings.TrimLeft(l, " "))]
				lines[pos] = indent + rapid.SampledFrom([]string{`""`, `"x"`, `" "`, "x"}).Draw(t, "emptyKey") + " " + l[j:]
			} else if a := strings.Index(l, `"`); a >= 0 {
				if b := strings.Index(l[a+1:], `"`); b >= 0 {
					lines[pos] = l[:a+1] + l[a+1+b:]
				}
			}
		case 9: // corrupt a byte
			if len(lines[pos]) > 0 {
				bs := []byte(lines[pos])
				bs[rapid.IntRange(0, len(bs)-1).Draw(t, "bytePos")] = rapid.Byte().Draw(t, "byte")
				lines[pos] = string(bs)
			}
		}
	}
	return strings.Join(lines, "\n")
}

// c09Reencode: the text in another encoding or behind a magic prefix - what an editor on another platform, a download or a
// half-finished conversion leaves in a file called .toml: byte order marks (UTF-8, UTF-16 LE/BE, UTF-32), the text as UTF-16
// with or without its last byte, gzip / zip / ELF / shebang / NUL prefixes, CR line ends, a trailing NUL or Ctrl-Z.
func c09Reencode(t *rapid.T, text []byte) []byte {
	utf16 := func(le bool, bom bool) []byte {
		var out []byte
		if bom && le {
			out = append(out, 0xFF, 0xFE)
		} else if bom {
			out = append(out, 0xFE, 0xFF)
		}
		for _, r := range string(text) {
			if r > 0xffff {
				r = '?'
			}
			if le {
				out = append(out, byte(r), byte(r>>8))
			} else {
				out = append(out, byte(r>>8), byte(r))
			}
		}
		return out
	}
	var out []byte
	switch rapid.IntRange(0, 11).Draw(t, "encoding") {
	case 0:
		out = append([]byte{0xEF, 0xBB, 0xBF}, text...)
	case 1:
		out = utf16(true, true)
	case 2:
		out = utf16(false, true)
	case 3:
		out = utf16(true, false)
	case 4:
		out = append([]byte{0xFF, 0xFE}, text...)
	case 5:
		out = append([]byte{0xFE, 0xFF}, text...)
	case 6:
		out = append([]byte{0xFF, 0xFE, 0, 0}, text...)
	case 7:
		out = append(rapid.SampledFrom([][]byte{{0x1f, 0x8b, 8, 0}, []byte("PK\x03\x04"), []byte("\x7fELF"), []byte("#!/bin/sh\n"), {0}, {0, 0, 0, 0}, []byte("\xef\xbb"), []byte("+/v8-")}).Draw(t, "magic"), text...)
	case 8:
		out = []byte(strings.ReplaceAll(string(text), "\n", "\r\n"))
	case 9:
		out = []byte(strings.ReplaceAll(string(text), "\n", "\r"))
	case 10:
		out = append(append([]byte{}, text...), rapid.SampledFrom([]byte{0, 0x1a, 0xff}).Draw(t, "trailer"))
	default:
		out = append([]byte{0xEF, 0xBB, 0xBF, 0xEF, 0xBB, 0xBF}, text...)
	}
	// a conversion or a copy that stopped early: the last byte, or a few, are missing
	if rapid.IntRange(0, 2).Draw(t, "cutTail") == 0 && len(out) > 0 {
		out = out[:len(out)-rapid.IntRange(1, min(3, len(out))).Draw(t, "cut")]
	}
	if len(out) > 65536 {
		out = out[:65536]
	}
	return out
}

func genC09(t *rapid.T) C09Case {
	c := genC09Plain(t)
	if rapid.IntRange(0, 7).Draw(t, "reencode") == 0 {
		data := c.Data
		if data == nil {
			data = []byte(c.Text)
		}
		return C09Case{Data: c09Reencode(t, data)}
	}
	return c
}

func genC09Plain(t *rapid.T) C09Case {
	switch k := rapid.IntRange(0, 19).Draw(t, "source"); {
	case k == 0: // arbitrary bytes
		return C09Case{Data: rapid.SliceOfN(rapid.Byte(), 0, 2048).Draw(t, "bytes")}
	case k == 1: // long inputs towards 64 KiB
		unit := genSchemaDoc(t)
		reps := rapid.IntRange(1, 200).Draw(t, "reps")
		s := strings.Repeat(unit+"\n", reps)
		if len(s) > 65536 {
			s = s[:65536]
		}
		return C09Case{Data: []byte(s)}
	case k <= 7: // schema-vocabulary documents
		return C09Case{Data: []byte(genSchemaDoc(t))}
	case k <= 11 && len(c09Factory) > 0: // factory file with mutations
		return C09Case{Data: []byte(mutateText(t, rapid.SampledFrom(c09Factory).Draw(t, "factory")))}
	default: // generated valid configuration with mutations
		d := genFullDesc(t)
		rs := &recSpelling{t: t}
		text := RenderTOML(d, rs.spelling())
		if rapid.IntRange(0, 9).Draw(t, "mutate") > 0 {
			text = mutateText(t, text)
		}
		return C09Case{Data: []byte(text)}
	}
}

func TestC09(t *testing.T) { ReplayOrRapid(t, NewRun(t, "C09"), checkC09, genC09) }

// FuzzC09 is the coverage-guided target (thorough tier). The oracle is inside the target.
func FuzzC09(f *testing.F) {
	r := NewRun(f, "C09")
	curRun = r
	for _, s := range c09Factory {
		f.Add([]byte(s))
	}
	for _, s := range []string{"", "[[mapping.0]]0", "[[mapping]]\nname=\"a\"\n[[mapping.analog]]\n[mapping.analog.map]\nABS_X={type=\"action\",action=\"panic\"}",
		"collision_mode = \"off\"\n[defaults]\nmapping = \"\"\n[[mapping]]\n", "mapping = 1", "[mapping]\n[mapping.keys]", "a.b.c = {d = [1, {e = 2}]}",
		"[[mapping]]\n[[mapping.keys]]\n[mapping.keys.map]\nx1 = \"c0,1\"\n", "[[mapping]]\n[[mapping.keys]]\n[mapping.keys.map]\n\"\" = \"\"\n",
		"collision_mode = \"off\"\nexit_sequence = [\"\"]\n[action_mapping]\n\"\" = \"\"\n[defaults]\nmapping = \"\"\n[[mapping]]\nname = \"\"\n"} {
		f.Add([]byte(s))
	}
	if dir := os.Getenv("VERIF_CORPUS"); dir != "" {
		files, _ := filepath.Glob(filepath.Join(dir, "C09", "*.json"))
		for _, file := range files {
			if c, err := loadCase[C09Case](file); err == nil {
				if c.Data == nil {
					c.Data = []byte(c.Text)
				}
				f.Add(c.Data)
			}
		}
	}
	f.Fuzz(func(t *testing.T, data []byte) {
		if len(data) > 65536 {
			return
		}
		c := C09Case{Data: data}
		_, v := checkC09(c)
		if v != nil && !r.Known(v) {
			r.Fail(c, v)
			t.Fatalf("VIOLATION %s", v)
		}
	})
}

// ---- C09 through files, read again and again: "configurations are re-read while it runs" ----
//
// C09ReloadCase: 1-4 generated contents are the .toml files of a per-process hidi-config tree; everything is loaded with
// config.LoadDeviceConfigs, then loaded again 1-3 times as after change notifications - with nothing changed, or with one of
// the files rewritten in between (another generated content, or the same bytes). Oracle: no load panics or hangs, and what
// a load reports (error or not, the number of configurations per directory class) is the same for the same bytes on disk:
// the n-th read of a file is as total as the first.
type C09ReloadCase struct {
	Files   []C09Case `json:"files"`
	Dirs    []int     `json:"dirs"`              // index into c12Dirs per file
	Reloads int       `json:"reloads"`           // further loads after the first
	Rewrite []int     `json:"rewrite,omitempty"` // before reload k (index k): file to rewrite, -1 none
	With    []C09Case `json:"with,omitempty"`    // content for that rewrite (nil Data and empty Text: the same bytes again)
}

var c09ReloadRoot string

func c09Bytes(c C09Case) []byte {
	if c.Data != nil {
		return c.Data
	}
	return []byte(c.Text)
}

func checkC09Reload(c C09ReloadCase) (bool, *Violation) {
	if len(c.Files) == 0 || len(c.Dirs) != len(c.Files) { // (corpus cases of the other C09 parts land here with an empty case)
		return false, nil
	}
	if c09ReloadRoot == "" {
		root, err := os.MkdirTemp(".", "c09reload-")
		if err != nil {
			return false, violation("C09", "harness", "", "mkdtemp: %v", err)
		}
		c09ReloadRoot, _ = filepath.Abs(root)
		for _, dir := range c12Dirs {
			if err := os.MkdirAll(filepath.Join(c09ReloadRoot, dir), 0o755); err != nil {
				return false, violation("C09", "harness", "", "mkdir: %v", err)
			}
		}
	}
	paths := make([]string, len(c.Files))
	content := make([][]byte, len(c.Files))
	for i := range c.Files {
		paths[i] = filepath.Join(c09ReloadRoot, c12Dirs[c.Dirs[i]%len(c12Dirs)], fmt.Sprintf("file%d.toml", i))
		content[i] = c09Bytes(c.Files[i])
	}
	defer func() {
		for _, p := range paths {
			os.Remove(p)
		}
	}()
	type outcome struct {
		err string
		n   int
	}
	load := func() (outcome, *Violation) {
		type res struct {
			o outcome
			v *Violation
		}
		done := make(chan res, 1)
		go func() {
			var o outcome
			v := guard("C09", "reload-panic", func() *Violation {
				var wg sync.WaitGroup
				cfgs, err := config.LoadDeviceConfigs(context.Background(), &wg)
				if err != nil {
					o.err = "error"
				}
				o.n = len(cfgs.Factory.Keyboards) + len(cfgs.Factory.Gamepads) + len(cfgs.User.Keyboards) + len(cfgs.User.Gamepads)
				return nil
			})
			done <- res{o, v}
		}()
		select {
		case r := <-done:
			return r.o, r.v
		case <-time.After(c09Watchdog):
			return outcome{}, violation("C09", "reload-hang", "", "LoadDeviceConfigs did not return within %v", c09Watchdog)
		}
	}
	describe := func() string {
		var sb strings.Builder
		for i := range paths {
			fmt.Fprintf(&sb, "  %s (%d bytes): %q\n", strings.TrimPrefix(paths[i], c09ReloadRoot+"/"), len(content[i]), clip(string(content[i]), 300))
		}
		return sb.String()
	}
	var v *Violation
	nontrivial := false
	herr := inDir(c09ReloadRoot, func() {
		for i := range paths {
			if err := os.WriteFile(paths[i], content[i], 0o644); err != nil {
				v = violation("C09", "harness", "", "write: %v", err)
				return
			}
		}
		seen := map[string]outcome{}
		key := func() string {
			h := sha256.New()
			for i := range content {
				fmt.Fprintf(h, "%d:%d:", c.Dirs[i]%len(c12Dirs), len(content[i]))
				h.Write(content[i])
			}
			return string(h.Sum(nil))
		}
		for k := 0; k <= c.Reloads; k++ {
			if k > 0 && k-1 < len(c.Rewrite) && c.Rewrite[k-1] >= 0 {
				i := c.Rewrite[k-1] % len(paths)
				if k-1 < len(c.With) {
					if b := c09Bytes(c.With[k-1]); len(b) > 0 {
						content[i] = b
					}
				}
				if err := os.WriteFile(paths[i], content[i], 0o644); err != nil {
					v = violation("C09", "harness", "", "write: %v", err)
					return
				}
			}
			o, lv := load()
			if lv != nil {
				lv.Message = fmt.Sprintf("load %d of the same process (%d earlier loads went through): %s\nfiles at that moment:\n%s", k+1, k, lv.Message, describe())
				v = lv
				return
			}
			if prev, ok := seen[key()]; ok {
				nontrivial = true
				if prev != o {
					v = violation("C09", "reload-differs", "", "load %d reports %+v, an earlier load of exactly the same bytes reported %+v\nfiles:\n%s", k+1, o, prev, describe())
					return
				}
			}
			seen[key()] = o
		}
	})
	if herr != nil {
		return false, violation("C09", "harness", "", "chdir: %v", herr)
	}
	classifyIf(nontrivial, "the same bytes loaded more than once")
	return nontrivial, v
}

func genC09Reload(t *rapid.T) C09ReloadCase {
	n := rapid.IntRange(1, 4).Draw(t, "files")
	c := C09ReloadCase{Reloads: rapid.IntRange(1, 3).Draw(t, "reloads")}
	for i := 0; i < n; i++ {
		c.Files = append(c.Files, genC09(t))
		c.Dirs = append(c.Dirs, rapid.IntRange(0, len(c12Dirs)-1).Draw(t, "dir"))
	}
	for k := 0; k < c.Reloads; k++ {
		switch rapid.IntRange(0, 3).Draw(t, "rewrite") {
		case 0: // another content
			c.Rewrite = append(c.Rewrite, rapid.IntRange(0, n-1).Draw(t, "rewriteFile"))
			c.With = append(c.With, genC09(t))
		case 1: // saved again with the same bytes
			c.Rewrite = append(c.Rewrite, rapid.IntRange(0, n-1).Draw(t, "rewriteFile"))
			c.With = append(c.With, C09Case{})
		default:
			c.Rewrite = append(c.Rewrite, -1)
			c.With = append(c.With, C09Case{})
		}
	}
	return c
}

func TestC09Reload(t *testing.T) { ReplayOrRapid(t, NewRun(t, "C09"), checkC09Reload, genC09Reload) }
