package harness

import (
	"fmt"
	"math/big"
	"strings"
)

// AxisCase: a description whose first mapping holds the axes under test, and a history of axis
// positions (plus action-key taps for C07/C08).
type AxisCase struct {
	D     *Desc  `json:"desc"`
	Steps []Step `json:"steps"`
	Logs  bool   `json:"logs,omitempty"` // run the device with its logging enabled
}

func (c *AxisCase) keyCase() *KeyCase { return &KeyCase{D: c.D, Steps: c.Steps, NoLogs: !c.Logs} }

// ---------------------------------------------------------------- C06

type c06axisState struct {
	prevRaw     int32
	prevMeasure int
	havePrev    bool
}

func checkC06(c AxisCase) (bool, *Violation) {
	w, v := doWalk("C06", c.keyCase())
	if v != nil {
		return false, v
	}
	rx := NewReceiver()
	states := map[string]*c06axisState{}
	nontrivial := false
	base := c.D.Channel - 1
	curMap := -1
	for i := range w.Steps {
		ws := &w.Steps[i]
		if ws.Step.T != "abs" {
			continue
		}
		// the deadzone (and everything else) is the one of the mapping that is active now; the mappings of one case differ in
		// their deadzones only, so the receiver's view stays comparable across a switch
		if ws.Pre.Mapping != curMap {
			if curMap >= 0 {
				classify("axis moved after a mapping switch to other deadzones")
				nontrivial = true
			}
			curMap = ws.Pre.Mapping
			states = map[string]*c06axisState{}
		}
		m := &c.D.Mappings[curMap]
		a := axisOfStep(c.D, m, ws.Step)
		if a == nil {
			continue
		}
		dz := effectiveDeadzone(m, a)
		sh := exactShape(a, dz, ws.Step.Val)
		raw := ws.Step.Val
		ak := ws.Step.SK() + "|" + fmt.Sprint(a.Code)
		classifyIf(ws.Step.Node == 1, "events of a second event node with the same name and another range")
		st := states[ak]
		if st == nil {
			st = &c06axisState{}
			states[ak] = st
		}
		off, offNeg := 0, 0
		if a.Off != nil {
			off = *a.Off
		}
		if a.OffNeg != nil {
			offNeg = *a.OffNeg
		}
		ch, chNeg := byte((base+off)%16), byte((base+offNeg)%16)
		flip := a.Flip != nil && *a.Flip
		atEnd := (raw == a.Min || raw == a.Max)
		rest := sh.InDead || sh.AtDZEdge
		if atEnd || rest {
			nontrivial = true
		}
		{
			kind := "pitch bend"
			if a.Type == "cc" && a.CCNeg != nil {
				kind = "two controllers"
			} else if a.Type == "cc" {
				kind = "one controller"
			}
			rng := "signed range"
			if a.Min >= 0 {
				rng = "range from 0"
				if a.Center != nil && *a.Center {
					rng = "range from 0 with deadzone_at_center"
				}
			}
			classify("events: " + kind + ", " + rng)
			classifyIf(flip, "events on a flipped axis")
			classifyIf(atEnd, "position: physical end stop")
			classifyIf(sh.InDead, "position: inside the deadzone")
			classifyIf(sh.AtDZEdge, "position: exactly on the deadzone edge")
			classifyIf(dz == 0, "events on an axis without deadzone")
			classifyIf(dz >= 0.5, "events on an axis with a deadzone of half the travel or more")
		}
		where := func() string {
			return fmt.Sprintf("%s, raw %d (exact shaped position %.6f), step %d", axisLabel(a, dz), raw, ratF(sh.S), i)
		}
		for _, msg := range ws.Res.Out {
			rx.Feed(msg)
		}
		measure, haveMeasure := 0, false
		switch {
		case a.Type == "cc" && a.CCNeg == nil:
			ctl := [2]byte{ch, byte(*a.CC)}
			for _, msg := range ws.Res.Out {
				if len(msg) != 3 || msg[0] != 0xB0|ch || msg[1] != byte(*a.CC) {
					return true, violation("C06", "unexpected-message", "cc", "%s: emitted %x, expected only CC %d on channel %d", where(), msg, *a.CC, ch+1)
				}
			}
			x := sh.S
			restExact := big.NewRat(0, 1)
			if sh.CanNeg {
				x = new(big.Rat).Quo(new(big.Rat).Add(sh.S, ratOne), big.NewRat(2, 1))
				restExact = big.NewRat(127, 2)
			} else if flip {
				restExact = big.NewRat(127, 1)
			}
			E := ratMulInt(x, 127)
			_ = restExact
			if !rx.CCSeen[ctl] {
				// nothing was ever transmitted for this controller: the receiver still has its power-on value 0
				if E.Cmp(big.NewRat(1, 1)) > 0 {
					return true, violation("C06", "never-transmitted", "cc", "%s: nothing has been transmitted for CC %d although the exact value is %.3f", where(), *a.CC, ratF(E))
				}
				break
			}
			got := int(rx.CC[ctl])
			measure, haveMeasure = got, true
			if !within(got, E, 1) {
				return true, violation("C06", "tolerance", "cc-uni", "%s: receiver has CC %d = %d, exact value %.4f (more than one step away)", where(), *a.CC, got, ratF(E))
			}
			if atEnd && !rest || (rest && !sh.CanNeg) {
				if !E.IsInt() || int64(got) != E.Num().Int64() {
					return true, violation("C06", "end-stop", "cc-uni", "%s: physical end of travel must give exactly %s, receiver has %d", where(), E.RatString(), got)
				}
			} else if rest && sh.CanNeg && got != 63 && got != 64 {
				return true, violation("C06", "rest-value", "cc-uni", "%s: inside the deadzone the rest value is mid-scale (63/64), receiver has %d", where(), got)
			}
		case a.Type == "cc":
			pos, neg := [2]byte{ch, byte(*a.CC)}, [2]byte{chNeg, byte(*a.CCNeg)}
			for _, msg := range ws.Res.Out {
				okPos := len(msg) == 3 && msg[0] == 0xB0|ch && msg[1] == byte(*a.CC)
				okNeg := len(msg) == 3 && msg[0] == 0xB0|chNeg && msg[1] == byte(*a.CCNeg)
				if !okPos && !okNeg {
					return true, violation("C06", "unexpected-message", "cc-bidi", "%s: emitted %x, expected only CC %d (ch %d) / CC %d (ch %d)", where(), msg, *a.CC, ch+1, *a.CCNeg, chNeg+1)
				}
			}
			var mag *big.Rat
			side := 0
			if sh.CanNeg {
				mag = new(big.Rat).Abs(sh.S)
				side = sh.S.Sign()
			} else {
				t := new(big.Rat).Sub(ratMulInt(sh.S, 2), ratOne)
				side = t.Sign()
				mag = t.Abs(t)
			}
			E := ratMulInt(mag, 127)
			if side == 0 {
				for _, msg := range ws.Res.Out {
					if msg[2] != 0 {
						return true, violation("C06", "rest-value", "cc-bidi", "%s: at rest every transmitted controller value must be 0, emitted %x", where(), msg)
					}
				}
				measure, haveMeasure = 0, true
				break
			}
			ctl := pos
			name := *a.CC
			if side < 0 {
				ctl, name = neg, *a.CCNeg
			}
			if !rx.CCSeen[ctl] {
				// nothing was ever transmitted for the controller of this side: the receiver still has its power-on value 0
				if E.Cmp(big.NewRat(1, 1)) > 0 {
					return true, violation("C06", "never-transmitted", "cc-bidi", "%s: nothing transmitted for CC %d although the exact value is %.3f", where(), name, ratF(E))
				}
				break
			}
			got := int(rx.CC[ctl])
			measure, haveMeasure = side*got, true
			if !within(got, E, 1) {
				return true, violation("C06", "tolerance", "cc-bidi", "%s: receiver has CC %d = %d, exact value %.4f", where(), name, got, ratF(E))
			}
			if atEnd && E.IsInt() && int64(got) != E.Num().Int64() {
				return true, violation("C06", "end-stop", "cc-bidi", "%s: physical end of travel must give exactly %s on CC %d, receiver has %d", where(), E.RatString(), name, got)
			}
		case a.Type == "pitch_bend":
			for _, msg := range ws.Res.Out {
				if len(msg) != 3 || msg[0] != 0xE0|ch {
					return true, violation("C06", "unexpected-message", "bend", "%s: emitted %x, expected only pitch bend on channel %d", where(), msg, ch+1)
				}
			}
			vv := sh.S
			restExact := big.NewRat(8192, 1)
			if !sh.CanNeg {
				vv = new(big.Rat).Sub(ratMulInt(sh.S, 2), ratOne)
				restExact = big.NewRat(0, 1)
				if flip {
					restExact = big.NewRat(16383, 1)
				}
			}
			lin := new(big.Rat).Quo(ratMulInt(new(big.Rat).Add(vv, ratOne), 16383), big.NewRat(2, 1))
			var anch *big.Rat
			if vv.Sign() >= 0 {
				anch = new(big.Rat).Add(big.NewRat(8192, 1), ratMulInt(vv, 8191))
			} else {
				anch = new(big.Rat).Add(big.NewRat(8192, 1), ratMulInt(vv, 8192))
			}
			got, seen := rx.Bend[ch]
			_ = restExact
			if !seen {
				// nothing was ever transmitted: the receiver still has its power-on value, the centre
				if d := new(big.Rat).Sub(anch, big.NewRat(8192, 1)); d.Abs(d).Cmp(big.NewRat(1, 1)) > 0 {
					return true, violation("C06", "never-transmitted", "bend", "%s: no pitch bend transmitted although the exact value is %.2f", where(), ratF(anch))
				}
				break
			}
			measure, haveMeasure = got, true
			if !within(got, lin, 1) && !within(got, anch, 1) {
				return true, violation("C06", "tolerance", "bend", "%s: receiver has bend %d, exact value %.3f (anchored at 8192) / %.3f (linear)", where(), got, ratF(anch), ratF(lin))
			}
			if rest && sh.CanNeg && got != 8192 {
				return true, violation("C06", "rest-value", "bend", "%s: inside the deadzone pitch bend must rest at exactly 8192, receiver has %d", where(), got)
			}
			if (atEnd && !rest) || (rest && !sh.CanNeg) {
				if int64(got) != anch.Num().Int64() || !anch.IsInt() {
					return true, violation("C06", "end-stop", "bend", "%s: physical end of travel must give exactly %s, receiver has %d", where(), anch.RatString(), got)
				}
			}
		}
		if haveMeasure {
			if st.havePrev && raw != st.prevRaw {
				up := raw > st.prevRaw
				if flip {
					up = !up
				}
				if (up && measure < st.prevMeasure) || (!up && measure > st.prevMeasure) {
					return true, violation("C06", "monotonic", a.Type, "%s: raw moved %d -> %d but the transmitted value moved %d -> %d", where(), st.prevRaw, raw, st.prevMeasure, measure)
				}
				if (st.prevMeasure == 0) != (measure == 0) {
					nontrivial = true // crossed the deadzone edge
				}
			}
			st.prevRaw, st.prevMeasure, st.havePrev = raw, measure, true
		}
	}
	return nontrivial, nil
}

// ---------------------------------------------------------------- C07

func checkC07(c AxisCase) (bool, *Violation) {
	w, v := doWalk("C07", c.keyCase())
	if v != nil {
		return false, v
	}
	m := &c.D.Mappings[0]
	rx := NewReceiver()
	base := c.D.Channel - 1
	learning := false
	learnCode := uint16(0xffff)
	for _, a := range c.D.Actions {
		if a.Action == "cc_learning" {
			learnCode = a.Code
		}
	}
	type ctlPair struct{ pos, neg [2]byte }
	pairs := map[string]ctlPair{}
	for i := range m.Axes {
		a := &m.Axes[i]
		off, offNeg := 0, 0
		if a.Off != nil {
			off = *a.Off
		}
		if a.OffNeg != nil {
			offNeg = *a.OffNeg
		}
		pairs[a.Sub+"|"+fmt.Sprint(a.Code)] = ctlPair{[2]byte{byte((base + off) % 16), byte(*a.CC)}, [2]byte{byte((base + offNeg) % 16), byte(*a.CCNeg)}}
	}
	lastSide := map[string]int{}
	lastPre := map[string]*big.Rat{}
	stale := map[string]bool{}
	crossings := map[string]int{}
	nontrivial := false
	for i := range w.Steps {
		ws := &w.Steps[i]
		if ws.Step.T == "key" && ws.Step.Code == learnCode {
			learning = ws.Step.Val == 1
			if len(ws.Res.Out) != 0 {
				return true, violation("C07", "learning-key-emits", "", "step %d: the cc_learning key emitted %s", i, fmtMsgs(ws.Res.Out))
			}
			continue
		}
		if ws.Step.T != "abs" {
			continue
		}
		a := axisByCode(m, ws.Step.Sub, ws.Step.Code)
		if a == nil {
			continue
		}
		dz := effectiveDeadzone(m, a)
		sh := exactShape(a, dz, ws.Step.Val)
		ak := a.Sub + "|" + fmt.Sprint(a.Code)
		p := pairs[ak]
		where := func() string {
			return fmt.Sprintf("%s CC %d/%d, raw %d (exact shaped position %.6f), learning=%v, step %d", axisLabel(a, dz), *a.CC, *a.CCNeg, ws.Step.Val, ratF(sh.S), learning, i)
		}
		// side of the exact position
		side := 0
		half := false
		if sh.CanNeg {
			side = sh.S.Sign()
			ab := new(big.Rat).Abs(sh.S)
			half = ab.Cmp(ratHalf) > 0
			if nearRat(ab, 0.5) && !(dz == 0 && ab.Cmp(ratHalf) == 0) {
				// (exactly half travel on an axis without deadzone is decided: the float chain is exact there, and half travel
				// is not beyond half travel)
				half = len(ws.Res.Out) > 0 // either reading
			}
			classifyIf(learning && dz == 0 && ab.Cmp(ratHalf) == 0, "exactly half travel while learning (decidable)")
		} else {
			side = new(big.Rat).Sub(sh.S, ratHalf).Sign()
			half = sh.S.Cmp(ratHalf) > 0
			if nearRat(sh.S, 0.5) {
				half = len(ws.Res.Out) > 0
				side = 0
				if len(ws.Res.Out) > 0 {
					side = 2 // ambiguous: exactly half travel; do not assert the side
				}
			}
		}
		for _, msg := range ws.Res.Out {
			ctl := [2]byte{msg[0] & 0x0f, msg[1]}
			if len(msg) != 3 || msg[0]&0xf0 != 0xB0 || (ctl != p.pos && ctl != p.neg) {
				return true, violation("C07", "unexpected-message", "", "%s: emitted %x which addresses neither controller of this axis", where(), msg)
			}
			rx.Feed(msg)
		}
		if learning && !half && len(ws.Res.Out) > 0 {
			return true, violation("C07", "learning-transmits-small-deflection", "", "%s: CC-learning is held and the deflection is not beyond half travel, but %s was transmitted", where(), fmtMsgs(ws.Res.Out))
		}
		// at most one side non-zero, for every axis, after every event
		for code, q := range pairs {
			if rx.CC[q.pos] > 0 && rx.CC[q.neg] > 0 {
				return true, violation("C07", "both-sides-nonzero", "", "%s: after this event the receiver has both controllers of axis %s non-zero (%d and %d)", where(), code, rx.CC[q.pos], rx.CC[q.neg])
			}
		}
		// An event that transmits nothing leaves the receiver as it was. That is legitimate while CC-learning suppresses it
		// (the receiver is stale until the next event that is not suppressed) or when it repeats the position of the last
		// event that was not suppressed; in every other case - also for the first event after learning was released - the
		// receiver must be on the side of the stick after the event ("and this still holds afterwards").
		prevPre, seenPre := lastPre[ak]
		repeatsPrev := seenPre && prevPre.Cmp(sh.PreFlip) == 0
		if !(learning && !half) {
			lastPre[ak] = sh.PreFlip
		}
		if len(ws.Res.Out) > 0 {
			stale[ak] = false
		} else if learning && !half {
			stale[ak] = true
		}
		classifyIf(!learning && stale[ak] && !repeatsPrev, "first differing position after a suppressed one, learning released")
		silentButMoved := len(ws.Res.Out) == 0 && !repeatsPrev && !(learning && !half) && side != 2
		if silentButMoved {
			switch {
			case side > 0 && rx.CC[p.neg] != 0:
				return true, violation("C07", "stale-side", "", "%s: the stick moved to the positive side, nothing was transmitted and the negative controller is still %d at the receiver", where(), rx.CC[p.neg])
			case side < 0 && rx.CC[p.pos] != 0:
				return true, violation("C07", "stale-side", "", "%s: the stick moved to the negative side, nothing was transmitted and the positive controller is still %d at the receiver", where(), rx.CC[p.pos])
			case side == 0 && (rx.CC[p.pos] != 0 || rx.CC[p.neg] != 0):
				return true, violation("C07", "stale-side", "", "%s: the stick returned to rest, nothing was transmitted and the controllers are still %d / %d", where(), rx.CC[p.pos], rx.CC[p.neg])
			}
		}
		if len(ws.Res.Out) > 0 && side != 2 {
			switch {
			case side > 0 && rx.CC[p.neg] != 0:
				return true, violation("C07", "wrong-side", "", "%s: stick is on the positive side but the negative controller is %d", where(), rx.CC[p.neg])
			case side < 0 && rx.CC[p.pos] != 0:
				return true, violation("C07", "wrong-side", "", "%s: stick is on the negative side but the positive controller is %d", where(), rx.CC[p.pos])
			case side == 0 && (rx.CC[p.pos] != 0 || rx.CC[p.neg] != 0):
				return true, violation("C07", "centre-not-zero", "", "%s: stick is at rest but the controllers are %d / %d", where(), rx.CC[p.pos], rx.CC[p.neg])
			}
			if ls, ok := lastSide[ak]; ok && ls != 0 && side != 0 && ls != side {
				crossings[ak]++
				nontrivial = true
				classify("centre crossed in one jump")
				if crossings[ak] == 3 {
					classify(">=3 crossings on one axis")
				}
			}
			lastSide[ak] = side
			if learning {
				nontrivial = true
				classify("transmitted while learning")
			}
		}
	}
	return nontrivial, nil
}

// ---------------------------------------------------------------- C08

type c08dir struct {
	on      bool // the model's direction state (deflection reached half travel and has not returned)
	pending bool // on, but the transposed pitch was out of range when it switched on
	sent    *heldNote
}

func checkC08(c AxisCase) (bool, *Violation) {
	w, v := doWalk("C08", c.keyCase())
	if v != nil {
		return false, v
	}
	rx := NewReceiver()
	dirs := map[string]*[2]c08dir{} // [0] positive, [1] negative
	lastPre := map[string]*big.Rat{}
	nontrivial := false
	actionOf := map[uint16]string{}
	for _, a := range c.D.Actions {
		actionOf[a.Code] = a.Action
	}
	for i := range w.Steps {
		ws := &w.Steps[i]
		// the axes mean what the mapping that is active now says (the mappings of one case shape the positions alike and
		// differ in the notes, in which directions have one, and in the channel offsets)
		m := &c.D.Mappings[ws.Pre.Mapping]
		if ws.Step.T == "key" {
			isMapping := strings.HasPrefix(actionOf[ws.Step.Code], "mapping_")
			for _, msg := range ws.Res.Out {
				// a mapping change may release what the axes have sounding (nothing says when exactly the old mapping's note
				// ends once its mapping is gone, only that it ends by the time the stick is back); nothing else may be emitted
				released := false
				if isMapping && isNoteOff(msg) {
					for _, dd := range dirs {
						for k := 0; k < 2; k++ {
							if !released && dd[k].sent != nil && int(msg[0]&0x0f) == dd[k].sent.Ch && int(msg[1]) == dd[k].sent.Pitch {
								dd[k] = c08dir{on: true, pending: true}
								released = true
							}
						}
					}
				}
				if !released {
					return true, violation("C08", "action-emits", "", "step %d: an octave/semitone/channel/mapping action emitted %s", i, fmtMsgs(ws.Res.Out))
				}
				rx.Feed(msg)
			}
			classifyIf(isMapping && ws.Step.Val == 1, "mapping change between the positions")
			continue
		}
		if ws.Step.T != "abs" {
			continue
		}
		a := axisByCode(m, ws.Step.Sub, ws.Step.Code)
		if a == nil {
			continue
		}
		dz := effectiveDeadzone(m, a)
		sh := exactShape(a, dz, ws.Step.Val)
		kv := keyValue(sh)
		ak := a.Sub + "|" + fmt.Sprint(a.Code)
		d := dirs[ak]
		if d == nil {
			d = &[2]c08dir{}
			dirs[ak] = d
		}
		// an event that repeats the previous shaped position of the axis changes nothing; nothing is asserted about it when it
		// emitted nothing. (The first event of an axis repeats nothing: it is asserted like any other.)
		prev, seen := lastPre[ak]
		lastPre[ak] = sh.PreFlip
		if seen && prev.Cmp(sh.PreFlip) == 0 && len(ws.Res.Out) == 0 {
			classify("repeated position (no output, nothing asserted)")
			continue
		}
		where := func() string {
			return fmt.Sprintf("%s note=%v note_negative=%v, raw %d (position %.6f of travel), state %s, step %d",
				axisLabel(a, dz), derefInt(a.Note), derefInt(a.NoteNeg), ws.Step.Val, ratF(kv), ws.Pre, i)
		}
		ambiguous := nearRat(kv, 0.5) || nearRat(kv, -0.5) || nearRat(kv, 0.49) || nearRat(kv, -0.49)
		// "reaches half travel" includes half travel itself. The position is decided in floating point, which is why positions
		// within 1e-9 of a threshold are left open - except where the arithmetic is exact: without a deadzone the chain is one
		// division whose exact quotient (a quarter, a half, three quarters) is representable, followed by *2-1 and a sign
		// change, all exact. There a position of exactly half travel has to sound its note.
		if dz == 0 && new(big.Rat).Abs(kv).Cmp(ratHalf) == 0 {
			ambiguous = false
			classify("exactly half travel on an axis without deadzone (decidable)")
		}
		// classify outputs
		var ons, offs [][]byte
		for _, msg := range ws.Res.Out {
			switch {
			case isNoteOn(msg):
				ons = append(ons, msg)
				if msg[2] < 1 || msg[2] > 127 {
					return true, violation("C08", "velocity", "", "%s: Note On %x has an invalid velocity", where(), msg)
				}
			case isNoteOff(msg):
				offs = append(offs, msg)
			default:
				return true, violation("C08", "unexpected-message", "", "%s: emitted %x (only Note On/Off expected from a key-emulating axis)", where(), msg)
			}
			rx.Feed(msg)
			// "never sounds both directions together" holds between the messages of one step too: when the stick jumps from
			// one direction to the other, the old note goes off before the new one comes on
			if isNoteOn(msg) {
				for k := 0; k < 2; k++ {
					if d[k].sent != nil && rx.Sounding[chPitch{byte(d[k].sent.Ch), byte(d[k].sent.Pitch)}] &&
						!(int(msg[0]&0x0f) == d[k].sent.Ch && int(msg[1]) == d[k].sent.Pitch) {
						return true, violation("C08", "both-directions-sounding", "within-step", "%s: Note On %x arrives while the other direction's note (ch %d pitch %d) is still sounding; all output of the step: %s",
							where(), msg, d[k].sent.Ch+1, d[k].sent.Pitch, fmtMsgs(ws.Res.Out))
					}
				}
			}
		}
		notes := [2]*int{a.Note, a.NoteNeg}
		expectedPitch := func(k int) (heldNote, bool) {
			if notes[k] == nil {
				return heldNote{}, false
			}
			p := *notes[k] + 12*ws.Pre.Octave + ws.Pre.Semitone
			off := [2]*int{a.Off, a.OffNeg}[k]
			ch := ws.Pre.Channel
			if off != nil {
				ch = (ch + *off) % 16
			}
			return heldNote{ch, p}, p >= 0 && p <= 127
		}
		if !ambiguous {
			// target region
			region := 0 // 0: rest, +1 / -1: beyond half travel, 2: hysteresis band (unchanged)
			ab := new(big.Rat).Abs(kv)
			switch {
			case ab.Cmp(ratFloat(0.5)) >= 0:
				region = kv.Sign()
			case ab.Cmp(ratFloat(0.49)) < 0:
				region = 0
			default:
				region = 2
			}
			want := [2]bool{d[0].on, d[1].on}
			switch region {
			case 1:
				want = [2]bool{true, false}
			case -1:
				want = [2]bool{false, true}
			case 0:
				want = [2]bool{false, false}
			case 2:
				// between 49 % and 50 % of travel: the direction the stick is in keeps its state (hysteresis), the opposite
				// direction is far below 49 % of ITS travel and must be off
				if kv.Sign() > 0 {
					want[1] = false
				} else {
					want[0] = false
				}
			}
			onUsed := make([]bool, len(ons))
			offUsed := make([]bool, len(offs))
			take := func(list [][]byte, used []bool, hn heldNote) bool {
				for j, msg := range list {
					if !used[j] && int(msg[0]&0x0f) == hn.Ch && int(msg[1]) == hn.Pitch {
						used[j] = true
						return true
					}
				}
				return false
			}
			dirNames := []string{"positive", "negative"}
			// 1. directions that turn off release exactly what they sent
			for k := 0; k < 2; k++ {
				if d[k].on && !want[k] {
					if d[k].sent != nil && !take(offs, offUsed, *d[k].sent) {
						return true, violation("C08", "missing-note-off", dirNames[k], "%s: the %s direction returned towards centre but its Note On (ch %d pitch %d) was not released; emitted %s",
							where(), dirNames[k], d[k].sent.Ch+1, d[k].sent.Pitch, fmtMsgs(ws.Res.Out))
					}
					d[k] = c08dir{}
				}
			}
			// 2. directions that turn on sound their (transposed) note once
			for k := 0; k < 2; k++ {
				hn, inRange := expectedPitch(k)
				switch {
				case !d[k].on && want[k]:
					d[k].on = true
					nontrivial = true
					if notes[k] == nil {
						classify("direction without a configured note reached")
					} else if !inRange {
						d[k].pending = true
						classify("threshold crossed with pitch out of range")
					} else {
						if !take(ons, onUsed, hn) {
							return true, violation("C08", "missing-note-on", dirNames[k], "%s: deflection reached half travel in the %s direction; expected Note On ch %d pitch %d, emitted %s",
								where(), dirNames[k], hn.Ch+1, hn.Pitch, fmtMsgs(ws.Res.Out))
						}
						d[k].sent = &heldNote{hn.Ch, hn.Pitch}
						classifyIf(ws.Pre.Octave != c.D.Octave || ws.Pre.Semitone != c.D.Semitone || ws.Pre.Channel != c.D.Channel-1, "note on under changed transposition/channel")
					}
				case d[k].on && want[k] && (d[k].pending || d[k].sent == nil) && notes[k] != nil && inRange:
					// the pitch was out of range when the threshold was crossed, or the direction got its note only now (the
					// mapping changed during the excursion): sounding it on a later event of the same excursion is permitted,
					// not required
					if take(ons, onUsed, hn) {
						d[k].pending = false
						d[k].sent = &heldNote{hn.Ch, hn.Pitch}
					}
				}
			}
			for j, on := range ons {
				if !onUsed[j] {
					detail := "unexpected"
					for k := 0; k < 2; k++ {
						if d[k].on && notes[k] == nil {
							detail = "no-note-configured"
						}
					}
					return true, violation("C08", "unexpected-note-on", detail, "%s: emitted Note On %x that the axis' note lifecycle does not allow here (all output: %s)", where(), on, fmtMsgs(ws.Res.Out))
				}
			}
			for j, off := range offs {
				if !offUsed[j] {
					return true, violation("C08", "unmatched-note-off", "", "%s: emitted Note Off %x that matches no Note On this axis has outstanding (all output: %s)", where(), off, fmtMsgs(ws.Res.Out))
				}
			}
		} else {
			// ambiguous threshold position: resynchronise the model from the wire
			classify("ambiguous threshold position")
			e0, _ := expectedPitch(0)
			e1, _ := expectedPitch(1)
			same := func(a *heldNote, b heldNote, has bool) bool { return a != nil && has && *a == b }
			if (notes[0] != nil && notes[1] != nil && e0 == e1) || same(d[0].sent, e1, notes[1] != nil) || same(d[1].sent, e0, notes[0] != nil) ||
				(d[0].sent != nil && d[1].sent != nil && *d[0].sent == *d[1].sent) {
				// both directions meet on one channel/pitch (through a transposition change in between): the messages of
				// this step cannot be attributed to a direction, and whether the threshold was crossed is not decidable here
				classify("ambiguous threshold position with both directions on one pitch: rest of the case not asserted")
				return nontrivial, nil
			}
			for _, msg := range ws.Res.Out { // in wire order
				for k := 0; k < 2; k++ {
					hn, _ := expectedPitch(k)
					switch {
					case isNoteOn(msg) && notes[k] != nil && int(msg[0]&0x0f) == hn.Ch && int(msg[1]) == hn.Pitch:
						d[k] = c08dir{on: true, sent: &heldNote{hn.Ch, hn.Pitch}}
					case isNoteOff(msg) && d[k].sent != nil && int(msg[0]&0x0f) == d[k].sent.Ch && int(msg[1]) == d[k].sent.Pitch:
						d[k] = c08dir{}
					}
				}
			}
		}
		// never both directions of one axis sounding; Note Off pinned: anything this axis has sounding at the
		// receiver must be exactly what the model recorded as sent
		sounding := 0
		for k := 0; k < 2; k++ {
			if d[k].sent != nil && rx.Sounding[chPitch{byte(d[k].sent.Ch), byte(d[k].sent.Pitch)}] {
				sounding++
			}
		}
		if sounding > 1 {
			return true, violation("C08", "both-directions-sounding", "", "%s: both directions of the axis are sounding at the receiver: %v", where(), rx.SoundingList())
		}
		allowed := map[chPitch]bool{}
		for _, dd := range dirs {
			for k := 0; k < 2; k++ {
				if dd[k].sent != nil {
					allowed[chPitch{byte(dd[k].sent.Ch), byte(dd[k].sent.Pitch)}] = true
				}
			}
		}
		for s := range rx.Sounding {
			if !allowed[s] {
				return true, violation("C08", "stale-note", "", "%s: receiver still has ch %d pitch %d sounding although no direction of any axis holds it (Note Off did not match the Note On)", where(), s.Ch+1, s.Pitch)
			}
		}
	}
	return nontrivial, nil
}

func derefInt(p *int) interface{} {
	if p == nil {
		return "none"
	}
	return *p
}

// ---------------------------------------------------------------- C07, bursts against a slow reader
//
// TestC07Burst: the same worlds, but the MIDI output queue has the application's capacity (8) and a reader that takes
// 50-400 us per message, and the second half of the positions arrives back to back (no waiting for the output between
// them). The stick moves faster than the port can talk; every message still has to get there, in order. Oracle (receiver
// side, after the burst has drained): for every axis at most one of its two controllers is non-zero, and when the last
// position is clearly off centre it is the controller of that side. CC-learning is left out of this part.
type C07BurstCase struct {
	C             AxisCase `json:"c"`
	BurstFrom     int      `json:"burst_from"`
	QueueCap      int      `json:"queue_cap"`
	ReaderDelayUs int      `json:"reader_delay_us"`
}

func checkC07Burst(bc C07BurstCase) (bool, *Violation) {
	c := bc.C
	learnCode := uint16(0xffff)
	for _, a := range c.D.Actions {
		if a.Action == "cc_learning" {
			learnCode = a.Code
		}
	}
	var steps []Step
	for _, s := range c.Steps {
		if s.T == "key" && s.Code == learnCode {
			continue
		}
		steps = append(steps, s)
	}
	if len(steps) == 0 {
		return false, nil
	}
	from := bc.BurstFrom
	if from > len(steps)-1 {
		from = len(steps) - 1
	}
	if from < 0 {
		from = 0
	}
	for i := from; i < len(steps)-1; i++ {
		steps[i].NoFence = true
	}
	kc := &KeyCase{D: c.D, Steps: steps, NoLogs: !c.Logs, QueueCap: bc.QueueCap, ReaderDelayUs: bc.ReaderDelayUs}
	w, v := doWalk("C07", kc)
	if v != nil {
		return false, v
	}
	m := &c.D.Mappings[0]
	rx := NewReceiver()
	base := c.D.Channel - 1
	last := map[string]shaped{}
	lastRaw := map[string]int32{}
	emitted := 0
	for i := range w.Steps {
		ws := &w.Steps[i]
		for _, msg := range ws.Res.Out {
			rx.Feed(msg)
			emitted++
		}
		if ws.Step.T != "abs" {
			continue
		}
		a := axisByCode(m, ws.Step.Sub, ws.Step.Code)
		if a == nil {
			continue
		}
		ak := a.Sub + "|" + fmt.Sprint(a.Code)
		last[ak] = exactShape(a, effectiveDeadzone(m, a), ws.Step.Val)
		lastRaw[ak] = ws.Step.Val
	}
	for _, msg := range w.Run.Tail {
		_ = msg // (disconnect: controllers are not reset)
	}
	burstLen := len(steps) - from
	classify(fmt.Sprintf("burst of %d or more positions", burstLen/8*8))
	for i := range m.Axes {
		a := &m.Axes[i]
		ak := a.Sub + "|" + fmt.Sprint(a.Code)
		sh, ok := last[ak]
		if !ok {
			continue
		}
		off, offNeg := 0, 0
		if a.Off != nil {
			off = *a.Off
		}
		if a.OffNeg != nil {
			offNeg = *a.OffNeg
		}
		pos, neg := [2]byte{byte((base + off) % 16), byte(*a.CC)}, [2]byte{byte((base + offNeg) % 16), byte(*a.CCNeg)}
		where := fmt.Sprintf("%s CC %d/%d after a history of %d positions of which the last %d arrived back to back (output queue of %d, reader taking %d us per message; %d messages received), last raw %d (exact shaped position %.6f)",
			axisLabel(a, effectiveDeadzone(m, a)), *a.CC, *a.CCNeg, len(steps), burstLen, bc.QueueCap, bc.ReaderDelayUs, emitted, lastRaw[ak], ratF(sh.S))
		if rx.CC[pos] != 0 && rx.CC[neg] != 0 {
			return true, violation("C07", "both-sides-nonzero", "burst", "%s: both controllers are non-zero at the receiver (%d and %d)", where, rx.CC[pos], rx.CC[neg])
		}
		var mag *big.Rat
		side := 0
		if sh.CanNeg {
			mag, side = new(big.Rat).Abs(sh.S), sh.S.Sign()
		} else {
			t := new(big.Rat).Sub(ratMulInt(sh.S, 2), ratOne)
			side = t.Sign()
			mag = t.Abs(t)
		}
		if ratMulInt(mag, 127).Cmp(big.NewRat(3, 1)) < 0 {
			continue // (too close to the centre to say which side must show)
		}
		want, other := pos, neg
		if side < 0 {
			want, other = neg, pos
		}
		if rx.CC[want] == 0 || rx.CC[other] != 0 {
			return true, violation("C07", "wrong-side", "burst", "%s: the stick rests on the %s side, the receiver has %d there and %d on the other side",
				where, map[int]string{1: "positive", -1: "negative"}[side], rx.CC[want], rx.CC[other])
		}
	}
	return burstLen >= 8, nil
}
