package harness

import (
	"fmt"
	"sort"
	"strings"
	"testing"

	"github.com/gethiox/HIDI/internal/pkg/input"
	"github.com/holoplot/go-evdev"
	"pgregory.net/rapid"
)

// C20: discovery groups handlers into devices independently of order.

type c20Handler struct {
	Name string    `json:"name"` // unique tag
	Phys string    `json:"phys"`
	ID   [4]uint16 `json:"id"`
	Caps []uint16  `json:"caps"` // EV_* types, any order, duplicates possible
	// what else a handler reports about itself; none of it is the physical location
	Uniq  string `json:"uniq,omitempty"`
	Sysfs string `json:"sysfs,omitempty"`
}

type C20Case struct {
	Handlers []c20Handler `json:"handlers"`
	Perms    [][]int      `json:"perms"` // discovery orders to compare with the identity order
}

// reference classification of one handler, from its capability SET (intent of the capability tables)
func c20Class(caps []uint16) string {
	set := map[uint16]bool{}
	for _, c := range caps {
		set[c] = true
	}
	eq := func(want ...evdev.EvType) bool {
		if len(set) != len(want) {
			return false
		}
		for _, w := range want {
			if !set[uint16(w)] {
				return false
			}
		}
		return true
	}
	switch {
	case eq(evdev.EV_SYN, evdev.EV_KEY, evdev.EV_MSC, evdev.EV_LED, evdev.EV_REP),
		eq(evdev.EV_SYN, evdev.EV_KEY, evdev.EV_REL, evdev.EV_ABS, evdev.EV_MSC, evdev.EV_LED, evdev.EV_REP):
		return "std-keyboard"
	case eq(evdev.EV_SYN, evdev.EV_KEY, evdev.EV_MSC, evdev.EV_REP):
		return "nkro"
	case eq(evdev.EV_SYN, evdev.EV_KEY, evdev.EV_REL, evdev.EV_MSC):
		return "mouse"
	case eq(evdev.EV_SYN, evdev.EV_KEY, evdev.EV_MSC):
		return "system"
	case eq(evdev.EV_SYN, evdev.EV_KEY, evdev.EV_REL, evdev.EV_ABS, evdev.EV_MSC):
		return "multimedia"
	case set[uint16(evdev.EV_FF)] || set[uint16(evdev.EV_ABS)]:
		return "joystick-like"
	}
	return "other"
}

func c20Infos(hs []c20Handler, order []int) []input.DeviceInfo {
	out := make([]input.DeviceInfo, 0, len(hs))
	for _, i := range order {
		h := hs[i]
		caps := make([]evdev.EvType, len(h.Caps))
		for j, c := range h.Caps {
			caps[j] = evdev.EvType(c)
		}
		out = append(out, input.DeviceInfo{ID: input.InputID{Bus: h.ID[0], Vendor: h.ID[1], Product: h.ID[2], Version: h.ID[3]},
			Name: h.Name, Phys: h.Phys, CapableTypes: caps, Uniq: h.Uniq, Sysfs: h.Sysfs})
	}
	return out
}

type c20Group struct {
	Phys     string
	Type     string
	Handlers []string
	ID       string
}

// c20Canon: order-free summary of a Normalize result.
func c20Canon(devs []input.Device, idAgree map[string]bool) []c20Group {
	var out []c20Group
	for _, d := range devs {
		g := c20Group{Phys: d.Phys, Type: d.DeviceType.String()}
		for _, h := range d.Handlers {
			g.Handlers = append(g.Handlers, h.DeviceInfo.Name)
		}
		sort.Strings(g.Handlers)
		// the identifier of the device (it selects the configuration and the blacklist entry) is part of the result, also when
		// the handlers at one location do not agree on it
		g.ID = fmt.Sprintf("%04x:%04x:%04x:%04x", d.ID.Bus, d.ID.Vendor, d.ID.Product, d.ID.Version)
		_ = idAgree
		out = append(out, g)
	}
	sort.Slice(out, func(i, j int) bool {
		if out[i].Phys != out[j].Phys {
			return out[i].Phys < out[j].Phys
		}
		return strings.Join(out[i].Handlers, ",") < strings.Join(out[j].Handlers, ",")
	})
	return out
}

func checkC20(c C20Case) (bool, *Violation) {
	n := len(c.Handlers)
	var res *Violation
	nontrivial := false
	v := guard("C20", "panic", func() *Violation {
		// expected grouping
		byPhys := map[string][]int{}
		for i, h := range c.Handlers {
			byPhys[h.Phys] = append(byPhys[h.Phys], i)
		}
		idAgree := map[string]bool{}
		expectedType := map[string]string{}
		for phys, idxs := range byPhys {
			agree := true
			classes := map[string]bool{}
			for _, i := range idxs {
				if c.Handlers[i].ID != c.Handlers[idxs[0]].ID {
					agree = false
				}
				classes[c20Class(c.Handlers[i].Caps)] = true
			}
			idAgree[phys] = agree
			switch {
			case classes["joystick-like"]:
				expectedType[phys] = "Joystick"
			case classes["std-keyboard"]:
				expectedType[phys] = "Keyboard"
			default:
				expectedType[phys] = "not-playable"
			}
			if len(idxs) >= 2 && len(classes) >= 2 && len(byPhys) >= 2 {
				nontrivial = true
			}
		}
		classify(fmt.Sprintf("%d groups", len(byPhys)))
		// per-handler classification: invariant under permutation and duplication of the capability list
		for _, h := range c.Handlers {
			di := c20Infos([]c20Handler{h}, []int{0})[0]
			base := di.HandlerType()
			rev := append([]uint16{}, h.Caps...)
			for i, j := 0, len(rev)-1; i < j; i, j = i+1, j-1 {
				rev[i], rev[j] = rev[j], rev[i]
			}
			dup := append(append([]uint16{}, h.Caps...), h.Caps...)
			for _, variant := range [][]uint16{rev, dup} {
				h2 := h
				h2.Caps = variant
				d2 := c20Infos([]c20Handler{h2}, []int{0})[0]
				if got := d2.HandlerType(); got != base {
					return violation("C20", "handler-type-order", "", "handler %q: capabilities %v classify as %v but the same set listed as %v classifies as %v", h.Name, h.Caps, base, variant, got)
				}
			}
			classify("handler class " + c20Class(h.Caps))
		}
		var first []c20Group
		orders := append([][]int{indices(n)}, c.Perms...)
		for oi, order := range orders {
			devs := input.Normalize(c20Infos(c.Handlers, order))
			// partition
			seen := map[string]int{}
			for _, d := range devs {
				for _, h := range d.Handlers {
					seen[h.DeviceInfo.Name]++
					if h.DeviceInfo.Phys != d.Phys {
						return violation("C20", "grouping", "phys", "order %v: handler %q (phys %q) was put into the device with phys %q", order, h.DeviceInfo.Name, h.DeviceInfo.Phys, d.Phys)
					}
				}
			}
			for _, h := range c.Handlers {
				if seen[h.Name] != 1 {
					return violation("C20", "partition", "", "order %v: handler %q appears in %d devices, want exactly 1", order, h.Name, seen[h.Name])
				}
			}
			if len(devs) != len(byPhys) {
				return violation("C20", "grouping", "count", "order %v: %d devices for %d distinct physical locations", order, len(devs), len(byPhys))
			}
			for _, d := range devs {
				got := d.DeviceType.String()
				want := expectedType[d.Phys]
				if want == "not-playable" {
					if got == "Joystick" || got == "Keyboard" {
						return violation("C20", "device-type", "not-playable", "order %v: device at %q has no joystick-like and no standard-keyboard handler but is typed %s", order, d.Phys, got)
					}
				} else if got != want {
					return violation("C20", "device-type", want, "order %v: device at %q must be %s, is %s (handlers: %v)", order, d.Phys, want, got, handlerNames(d))
				}
			}
			canon := c20Canon(devs, idAgree)
			if oi == 0 {
				first = canon
			} else if fmt.Sprint(canon) != fmt.Sprint(first) {
				return violation("C20", "order-dependence", "", "discovery order %v gives %v, the identity order gives %v", order, canon, first)
			}
		}
		return nil
	})
	if v != nil {
		res = v
	}
	return nontrivial, res
}

func handlerNames(d input.Device) []string {
	var out []string
	for _, h := range d.Handlers {
		out = append(out, h.DeviceInfo.Name)
	}
	return out
}

var c20Signatures = [][]evdev.EvType{
	{evdev.EV_SYN, evdev.EV_KEY, evdev.EV_MSC, evdev.EV_LED, evdev.EV_REP},
	{evdev.EV_SYN, evdev.EV_KEY, evdev.EV_REL, evdev.EV_ABS, evdev.EV_MSC, evdev.EV_LED, evdev.EV_REP},
	{evdev.EV_SYN, evdev.EV_KEY, evdev.EV_MSC, evdev.EV_REP},
	{evdev.EV_SYN, evdev.EV_KEY, evdev.EV_REL, evdev.EV_MSC},
	{evdev.EV_SYN, evdev.EV_KEY, evdev.EV_MSC},
	{evdev.EV_SYN, evdev.EV_KEY, evdev.EV_REL, evdev.EV_ABS, evdev.EV_MSC},
	{evdev.EV_SYN, evdev.EV_KEY, evdev.EV_ABS},
	{evdev.EV_SYN, evdev.EV_KEY, evdev.EV_ABS, evdev.EV_FF},
	{evdev.EV_SYN, evdev.EV_KEY, evdev.EV_FF, evdev.EV_MSC, evdev.EV_LED, evdev.EV_REP},
	{evdev.EV_SYN, evdev.EV_ABS, evdev.EV_MSC},
	{evdev.EV_SYN, evdev.EV_SW},
	{evdev.EV_SYN, evdev.EV_KEY},
	{},
}

var c20AllTypes = []evdev.EvType{evdev.EV_SYN, evdev.EV_KEY, evdev.EV_REL, evdev.EV_ABS, evdev.EV_MSC, evdev.EV_SW, evdev.EV_LED,
	evdev.EV_SND, evdev.EV_REP, evdev.EV_FF, evdev.EV_PWR, evdev.EV_FF_STATUS}

func genC20(t *rapid.T) C20Case {
	n := rapid.IntRange(1, 10).Draw(t, "handlers")
	// locations that differ only in ways a "normalising" grouping key would erase: interface suffix, letter case,
	// trailing blank, a common prefix; plus the empty location
	allPhys := []string{"usb-0000:00:14.0-1/input0", "usb-0000:00:14.0-2/input0", "", "bluetooth/aa:bb", "usb-0000:00:14.0-1/input1",
		"USB-0000:00:14.0-1/input0", "usb-0000:00:14.0-1/input0 ", "usb-0000:00:14.0-1", "usb-0000:00:14.0-10/input0"}
	order := rapid.Permutation(indices(len(allPhys))).Draw(t, "physOrder")
	nPhys := rapid.IntRange(1, 5).Draw(t, "physPool")
	physPool := make([]string, nPhys)
	for i := range physPool {
		physPool[i] = allPhys[order[i]]
	}
	ids := map[string][4]uint16{}
	var c C20Case
	for i := 0; i < n; i++ {
		h := c20Handler{Name: fmt.Sprintf("h%d", i), Phys: rapid.SampledFrom(physPool).Draw(t, "phys")}
		if id, ok := ids[h.Phys]; ok && rapid.IntRange(0, 9).Draw(t, "sameID") < 8 {
			h.ID = id
		} else {
			// bus types as the kernel numbers them (PCI, USB, Bluetooth, virtual, i8042, I2C, host, SPI), and the corners
			bus := rapid.SampledFrom([]uint16{3, 3, 3, 5, 5, 6, 0x11, 1, 0x18, 0x19, 0x1c, 0, 0xffff}).Draw(t, "bus")
			h.ID = [4]uint16{bus, uint16(rapid.IntRange(1, 5).Draw(t, "vendor")), uint16(rapid.IntRange(1, 5).Draw(t, "product")),
				rapid.SampledFrom([]uint16{0x111, 0x111, 0, 1, 0xffff}).Draw(t, "version")}
			if rapid.IntRange(0, 7).Draw(t, "idCorner") == 0 {
				h.ID[1], h.ID[2] = rapid.SampledFrom([]uint16{0, 0xffff, 0x8000}).Draw(t, "vendorCorner"), rapid.SampledFrom([]uint16{0, 0xffff, 0x8000}).Draw(t, "productCorner")
			}
			if !ok {
				ids[h.Phys] = h.ID
			}
		}
		h.Uniq = rapid.SampledFrom([]string{"", "", "", "aa:bb:cc:dd:ee:ff", "11:22:33:44:55:66", "S/N 0001", " "}).Draw(t, "uniq")
		h.Sysfs = rapid.SampledFrom([]string{"", "/devices/pci0000:00/0000:00:14.0/usb1/1-1/1-1:1.0/input/input5", "/devices/virtual/input/input9"}).Draw(t, "sysfs")
		var caps []evdev.EvType
		if rapid.IntRange(0, 9).Draw(t, "fromSignature") < 7 {
			caps = append(caps, rapid.SampledFrom(c20Signatures).Draw(t, "signature")...)
			if rapid.IntRange(0, 5).Draw(t, "tweak") == 0 && len(caps) > 0 { // near miss: one type more or less
				if rapid.Bool().Draw(t, "drop") {
					k := rapid.IntRange(0, len(caps)-1).Draw(t, "dropIdx")
					caps = append(caps[:k:k], caps[k+1:]...)
				} else {
					caps = append(caps, rapid.SampledFrom(c20AllTypes).Draw(t, "extra"))
				}
			}
		} else {
			for _, ty := range c20AllTypes {
				if rapid.IntRange(0, 2).Draw(t, "hasType") == 0 {
					caps = append(caps, ty)
				}
			}
		}
		perm := rapid.Permutation(indices(len(caps))).Draw(t, "capOrder")
		for _, k := range perm {
			h.Caps = append(h.Caps, uint16(caps[k]))
		}
		if len(h.Caps) > 0 && rapid.IntRange(0, 4).Draw(t, "dupCap") == 0 {
			h.Caps = append(h.Caps, h.Caps[0])
		}
		if h.Caps == nil {
			h.Caps = []uint16{}
		}
		c.Handlers = append(c.Handlers, h)
	}
	rev := make([]int, n)
	for i := range rev {
		rev[i] = n - 1 - i
	}
	c.Perms = append(c.Perms, rev)
	for k := 0; k < 5; k++ {
		c.Perms = append(c.Perms, rapid.Permutation(indices(n)).Draw(t, "order"))
	}
	return c
}

func TestC20(t *testing.T) { ReplayOrRapid(t, NewRun(t, "C20"), checkC20, genC20) }

// TestC20AllOrders: every discovery order for multisets of up to 6 handlers.
func checkC20All(c C20Case) (bool, *Violation) {
	n := len(c.Handlers)
	c.Perms = nil
	perm := indices(n)
	var gen func(k int)
	gen = func(k int) {
		if k == n {
			c.Perms = append(c.Perms, append([]int{}, perm...))
			return
		}
		for i := k; i < n; i++ {
			perm[k], perm[i] = perm[i], perm[k]
			gen(k + 1)
			perm[k], perm[i] = perm[i], perm[k]
		}
	}
	gen(0)
	classify(fmt.Sprintf("all %d orders of %d handlers", len(c.Perms), n))
	return checkC20(c)
}

func genC20All(t *rapid.T) C20Case {
	c := genC20(t)
	if len(c.Handlers) > 6 {
		c.Handlers = c.Handlers[:6]
	}
	c.Perms = nil
	return c
}

func TestC20AllOrders(t *testing.T) { ReplayOrRapid(t, NewRun(t, "C20"), checkC20All, genC20All) }

// FuzzC20 lets the coverage-guided fuzzer steer rapid's generator (rapid.MakeFuzz): the same cases and the same oracle
// as TestC20, searched by coverage instead of at random (thorough tier).
func FuzzC20(f *testing.F) {
	r := NewRun(f, "C20")
	curRun = r
	f.Fuzz(rapid.MakeFuzz(func(t *rapid.T) {
		c := genC20(t)
		nt, v := checkC20(c)
		if v != nil && !r.Known(v) {
			r.Fail(c, v)
			t.Fatalf("VIOLATION %s", v)
		}
		r.Count(nt, c, nil)
	}))
}
