//go:build verif

package harness

import (
	"encoding/json"
	"fmt"
	"os"
	"path/filepath"
	"testing"

	"github.com/gethiox/HIDI/internal/pkg/midi/device"
	"github.com/holoplot/go-evdev"
)

// TestWriteCorpus regenerates the hand-written regression cases under /verif/corpus (one per defect that was
// found and fixed; see known_findings.json). Run: VERIF_WRITE_CORPUS=/verif/corpus go test -tags verif -run TestWriteCorpus
func TestWriteCorpus(t *testing.T) {
	dir := os.Getenv("VERIF_WRITE_CORPUS")
	if dir == "" {
		t.Skip("VERIF_WRITE_CORPUS not set")
	}
	write := func(prop, name, note string, c interface{}) {
		p := filepath.Join(dir, prop, name+".json")
		_ = os.MkdirAll(filepath.Dir(p), 0o755)
		data, err := json.MarshalIndent(map[string]interface{}{"note": note, "case": c}, "", " ")
		if err != nil {
			t.Fatal(err)
		}
		if err := os.WriteFile(p, append(data, '\n'), 0o644); err != nil {
			t.Fatal(err)
		}
	}
	simple := func(mode string) *Desc {
		return &Desc{Mode: mode, Exit: []uint16{}, Channel: 1, Velocity: 64, DefMapping: "M", Colors: colorPalette,
			Mappings: []MappingDef{{Name: "M", KeySubs: []string{""}, Keys: []KeyDef{{Code: 30, Note: 60}, {Code: 31, Note: 60}, {Code: 32, Note: 127}}}}}
	}
	tap := func(code uint16) []Step {
		return []Step{{T: "key", Code: code, Val: 1}, {T: "key", Code: code, Val: 0}}
	}

	// C04: int8 octave*12
	d := simple("off")
	d.Octave = 11
	d.Actions = []ActionDef{{Code: 59, Action: "octave_up"}}
	write("C04", "octave-11-int8-wrap", "regression: int(d.octave*12) wrapped in int8 at octave 11 (fixed: 2a411be)", KeyCase{D: d, Steps: append(tap(32), tap(30)...), NoLogs: true})

	// C04: the transposition sum in 64 bits
	d = simple("off")
	d.Octave = 1 << 62
	write("C04", "octave-2e62-int64-wrap", "regression: 12*octave wrapped in 64 bits for a configured default octave of 2^62, the key sounded its base note (fixed: f34b129)", KeyCase{D: d, Steps: tap(30), NoLogs: true})
	d = simple("off")
	d.Octave, d.Semitone = 700000000000000000, -12*700000000000000000+3
	write("C04", "huge-octave-cancelled-by-semitone", "octave and semitone huge and cancelling: the pitch is base+3 and has to sound (guards the repair f34b129 against saturating too early)", KeyCase{D: d, Steps: tap(30), NoLogs: true})

	// C13: panic through an action axis while an up/down pair is held
	d = simple("interrupt")
	d.Channel = 5
	d.Actions = []ActionDef{{Code: 59, Action: "channel_up"}, {Code: 60, Action: "channel_down"}, {Code: 61, Action: "panic"}}
	d.Mappings[0].AnalogSubs = []AnalogSub{{Sub: "", Default: floatp(0)}}
	d.Mappings[0].Axes = []AxisDef{{Code: c13PanicAxis, Type: "action", Action: strp("panic"), Min: -1, Max: 1}}
	write("C13", "axis-panic-while-pair-held", "regression: a hat bound to the panic action, pushed while channel_up and channel_down are held, sent nothing (fixed: 9e7bdba)",
		C13Case{D: d, Steps: []Step{{T: "key", Code: 30, Val: 1}, {T: "key", Code: 59, Val: 1}, {T: "key", Code: 60, Val: 1}, {T: "key", Code: 60, Val: 0}, {T: "key", Code: 59, Val: 0}, {T: "key", Code: 30, Val: 0}},
			At: 3, Hold: 1, NoLogs: true, ViaAxis: 1})

	// C01: mapping switched while a key-emulating axis is deflected
	d = simple("off")
	d.Actions = []ActionDef{{Code: 59, Action: "mapping_up"}}
	d.Mappings[0].AnalogSubs = []AnalogSub{{Sub: "", Default: floatp(0)}}
	d.Mappings[0].Axes = []AxisDef{{Code: 0x10, Type: "key", Note: intp(50), NoteNeg: intp(52), Min: -1, Max: 1}}
	d.Mappings = append(d.Mappings, MappingDef{Name: "Other", KeySubs: []string{""}, Keys: []KeyDef{{Code: 30, Note: 61}}})
	write("C01", "mapping-switch-while-axis-deflected", "regression: the emulated key of an axis stayed sounding when the mapping was switched to one that does not map the axis (fixed: 505f4a1)",
		KeyCase{D: d, Steps: append(append([]Step{{T: "abs", Code: 0x10, Val: 1}}, tap(59)...), Step{T: "abs", Code: 0x10, Val: 0}, Step{T: "key", Code: 30, Val: 1}, Step{T: "key", Code: 30, Val: 0}), NoLogs: true})

	// C01/C02: the same key code on two sub-handlers
	d = simple("off")
	d.Mappings[0].KeySubs = []string{"", "Aux"}
	d.Mappings[0].Keys = append(d.Mappings[0].Keys, KeyDef{Sub: "Aux", Code: 30, Note: 72})
	twin := []Step{{T: "key", Sub: "", Code: 30, Val: 1}, {T: "key", Sub: "Aux", Code: 30, Val: 1}, {T: "key", Sub: "", Code: 30, Val: 0}, {T: "key", Sub: "Aux", Code: 30, Val: 0}}
	write("C01", "same-key-code-on-two-subhandlers", "regression: the note tracker was keyed by key code only; the first key's note was never released (fixed: c3974ad)", KeyCase{D: d, Steps: twin, NoLogs: true})
	write("C02", "same-key-code-on-two-subhandlers", "regression: the release of one key sent the Note Off of the other sub-handler's key (fixed: c3974ad)", KeyCase{D: d, Steps: twin, NoLogs: true})

	// C01: key-emulating axis let go while cc_learning is held
	d = simple("off")
	d.Actions = []ActionDef{{Code: 59, Action: "cc_learning"}}
	d.Mappings[0].AnalogSubs = []AnalogSub{{Sub: "", Default: floatp(0)}}
	d.Mappings[0].Axes = []AxisDef{{Code: 0x10, Type: "key", Note: intp(50), NoteNeg: intp(52), Min: -1, Max: 1}}
	write("C01", "key-axis-released-while-learning", "regression: the learning filter dropped the return to centre of a key-emulating axis (fixed: 05e54a5)",
		KeyCase{D: d, Steps: append([]Step{{T: "abs", Code: 0x10, Val: 1}, {T: "key", Code: 59, Val: 1}, {T: "abs", Code: 0x10, Val: 0}, {T: "key", Code: 59, Val: 0}}, tap(30)...), NoLogs: true})

	// C05: default channel 0 + panic
	d = simple("off")
	d.Channel = 0
	d.Actions = []ActionDef{{Code: 59, Action: "panic"}}
	write("C05", "channel-0-panic", "regression: default channel 0 was accepted and panic emitted status 0xFF (fixed: a22debc)", KeyCase{D: d, Steps: tap(59), NoLogs: true})

	// C06
	ax := func(a AxisDef, dz *float64, raws ...int32) AxisCase {
		dd := &Desc{Mode: "interrupt", Exit: []uint16{}, Channel: 1, Velocity: 64, DefMapping: "A", Colors: colorPalette,
			Mappings: []MappingDef{{Name: "A", AnalogSubs: []AnalogSub{{Sub: "", Default: dz}}, Axes: []AxisDef{a}}}}
		var steps []Step
		for _, r := range raws {
			steps = append(steps, Step{T: "abs", Code: a.Code, Val: r})
		}
		return AxisCase{D: dd, Steps: steps}
	}
	write("C06", "bend-centre-8192", "regression: pitch bend rested at 8191 (fixed: c28c549)", ax(AxisDef{Code: 1, Type: "pitch_bend", Min: -128, Max: 127}, floatp(0.1), 100, 0, -128, 127, 5))
	write("C06", "end-stop-126", "regression: (1-dz)*(1/(1-dz)) < 1 made the CC end stop 126 (fixed: e747d6e)", ax(AxisDef{Code: 0, Type: "cc", CC: intp(7), Min: 0, Max: 255}, floatp(0.05), 128, 255, 0, 255))
	write("C06", "end-stop-126-bidi", "regression: same for a bidirectional CC with deadzone 0.002", ax(AxisDef{Code: 0, Type: "cc", CC: intp(7), CCNeg: intp(8), Min: -32768, Max: 32767}, floatp(0.002), 32767, -32768, 0))

	write("C06", "range-from-1-flipped", "regression: an axis reporting 1..255 was normalised as raw/255, the lower end stop of the flipped controller gave 126 (fixed: 8edca27)",
		ax(AxisDef{Code: 0, Type: "cc", CC: intp(7), Flip: boolp(true), Min: 1, Max: 255}, floatp(0), 128, 1, 255, 1))
	write("C06", "range-64-192-bend", "regression: same, pitch bend on 64..192: the lower end stop is 0, the middle 8192", ax(AxisDef{Code: 2, Type: "pitch_bend", Min: 64, Max: 192}, floatp(0), 100, 64, 128, 192))
	write("C06", "deadzone-one", "regression: a deadzone of 1.0 made the end stop 0/0 (fixed: 6e354df)", ax(AxisDef{Code: 0, Type: "cc", CC: intp(7), Min: -128, Max: 127}, floatp(1.0), 0, 126, 127, -128, 5))

	// C08
	write("C08", "one-sided-range", "regression: on a range -255..0 the rest position was 0/0 and the emulated key never went off (fixed: 8edca27)",
		ax(AxisDef{Code: 0x10, Type: "key", NoteNeg: intp(40), Note: intp(41), Min: -255, Max: 0}, floatp(0), -255, 0, -200, 0))
	write("C08", "range-from-1", "regression: on a range 1..255 half travel sits at 64 / 192, not at 63.75 / 191.25 of 255 (fixed: 8edca27)",
		ax(AxisDef{Code: 0x10, Type: "key", NoteNeg: intp(40), Note: intp(41), Min: 1, Max: 255}, floatp(0), 128, 64, 128, 190, 192, 128))
	keyAxis := AxisDef{Code: 0x10, Type: "key", Note: intp(60), Min: -1, Max: 1}
	write("C08", "no-note-negative-silent", "regression: negative direction without note_negative played note 0 (fixed: 6bb5805)", ax(keyAxis, floatp(0), -1, 0, 1, 0, -1))
	keyAxis.NoteNeg = intp(62)
	write("C08", "note-negative-distinct", "regression: note_negative was overwritten with note (fixed: 22e0c47)", ax(keyAxis, floatp(0), -1, 0, 1, -1, 0))

	twoSubs := ax(AxisDef{Code: 0x10, Type: "key", Note: intp(60), NoteNeg: intp(62), Min: -1, Max: 1}, floatp(0))
	twoSubs.D.Mappings[0].AnalogSubs = append(twoSubs.D.Mappings[0].AnalogSubs, AnalogSub{Sub: "Touchpad", Default: floatp(0)})
	twoSubs.D.Mappings[0].Axes = append(twoSubs.D.Mappings[0].Axes, AxisDef{Sub: "Touchpad", Code: 0x10, Type: "key", Note: intp(70), NoteNeg: intp(72), Min: -1, Max: 1})
	twoSubs.Steps = []Step{{T: "abs", Sub: "", Code: 0x10, Val: 1}, {T: "abs", Sub: "Touchpad", Code: 0x10, Val: 1}, {T: "abs", Sub: "", Code: 0x10, Val: 0},
		{T: "abs", Sub: "Touchpad", Code: 0x10, Val: -1}, {T: "abs", Sub: "", Code: 0x10, Val: -1}, {T: "abs", Sub: "Touchpad", Code: 0x10, Val: 0}, {T: "abs", Sub: "", Code: 0x10, Val: 0}}
	write("C08", "same-axis-code-on-two-subhandlers", "regression: the emulated-key tracker was keyed by axis code only (fixed: see known_findings.json)", twoSubs)

	// C09
	for i, s := range []string{"[[mapping.0]]0", "deadzones = [[1, 2], [\"a\"]]\nexit_sequence = { type = [[1, 2], [\"a\"]] }\n",
		"collision_mode = \"off\"\n[defaults]\nmapping = \"A\"\nchannel = 1\n[[mapping]]\nname = \"A\"\n[[mapping.analog]]\nsubhandler = \"\"\n[mapping.analog.map]\nABS_X = { type = \"action\", action = \"panic\" }\n",
		"", "[HIDI]\npool_rate = 0\ndiscovery_rate = 1\n", "[HIDI]\npool_rate = 120\n", "[other]\n"} {
		write("C09", fmt.Sprintf("crasher-%d", i), "regression: decoder panics / nil action_negative / divide by zero in hidi.toml (fixed: 470e0ca f553783 36cb82e 05c797f)", C09Case{Data: []byte(s)})
	}

	// C10
	full := func() *Desc {
		dd := simple("interrupt")
		dd.Mappings[0].AnalogSubs = []AnalogSub{{Sub: "", Default: floatp(0.1)}}
		dd.Mappings[0].Axes = []AxisDef{{Code: 0x10, Type: "key", Note: intp(60), NoteNeg: intp(62), Min: -1, Max: 1},
			{Code: 0, Type: "cc", CC: intp(1), CCNeg: intp(2), Off: intp(3), OffNeg: intp(4), Min: -128, Max: 127},
			{Code: 1, Type: "action", Action: strp("octave_up"), Min: -1, Max: 1}}
		return dd
	}
	write("C10", "faithful-note-negative-and-single-action", "regression: note_negative dropped; action axis without action_negative crashed", C10Case{D: full()})
	dd := full()
	dd.Channel = 0
	write("C10", "reject-channel-0", "regression: default channel 0 accepted (fixed: a22debc)", C10Case{D: dd, Invalid: "default-channel-out-of-range: 0"})
	dd = full()
	dd.Mappings[0].Axes[1].Off = intp(300)
	write("C10", "reject-analog-offset-300", "regression: analog channel_offset 300 accepted (fixed: 5b7f2af)", C10Case{D: dd, Invalid: "axis-offset-out-of-range: 300"})
	dd = full()
	dd.Mappings[0].Axes[2].ActionNeg = strp("jump")
	write("C10", "reject-unknown-action-negative", "regression: unknown action_negative accepted (fixed: f553783)", C10Case{D: dd, Invalid: "unknown-axis-action-negative: \"jump\""})

	// C12
	write("C12", "missing-directory", "regression: missing directory -> nil FileInfo panic (fixed: 7ac5c0b)",
		C12Case{Kbd: [4]bool{true, true, true, true}, ID: [4]uint16{3, 1, 2, 3}, Query: [4]uint16{3, 1, 2, 3}, DevType: 1, MissingDir: 1})

	write("C12", "entry-too-deep", "regression: one nested path past PATH_MAX failed the whole load (fixed: 89db1d4)",
		C12Case{Kbd: [4]bool{true, true, true, true}, Pad: [4]bool{true, true, true, true}, ID: [4]uint16{3, 1, 2, 3}, Query: [4]uint16{3, 1, 2, 3}, DevType: 1, MissingDir: -1,
			Noise: []c12Noise{{Dir: 3, Name: "00_noise_0.toml", Kind: "too-deep"}, {Dir: 0, Name: "zz_noise_1.toml", Kind: "too-deep"}}})

	// C15
	write("C15", "despawn-stalled-consumer", "regression: DespawnOutput deadlocked behind a consumer that stopped reading (fixed: b698f0d)",
		C15Case{InCap: 2, OutCap: 2, PortInCap: 2, PortOutCap: 2, Emitters: []int{10}, InputN: 200, Procs: 2, Direct: true,
			Script: []c15Op{{Kind: "spawn", Consumer: 0}, {Kind: "spawn", Consumer: 1}, {Kind: "wait", N: 10}, {Kind: "stall", Consumer: 0}, {Kind: "wait", N: 30}, {Kind: "despawn", Consumer: 0, N: 5}}})
	write("C15", "despawn-ended-device", "regression: same, with a real device whose ProcessEvents has returned (the manager's pattern)",
		C15Case{InCap: 1, OutCap: 2, PortInCap: 2, PortOutCap: 2, Emitters: []int{5, 5}, InputN: 300, Procs: 4,
			Script: []c15Op{{Kind: "spawn", Consumer: 0, Device: true}, {Kind: "spawn", Consumer: 1}, {Kind: "wait", N: 20}, {Kind: "despawn", Consumer: 0, N: 8}}})

	// C19
	write("C19", "non-toml-suffix", "regression: HasSuffix(name, \"toml\") notified for mytoml / atoml (fixed: monitor.go)",
		C19Case{Ops: []c19Op{{Kind: "write", Dir: 0, File: "mytoml"}, {Kind: "write", Dir: 2, File: "atoml"}, {Kind: "burst", Dir: 1, File: "toml", N: 6}, {Kind: "write", Dir: 3, File: "a.toml"}}, CancelWith: "idle"})

	write("C19", "first-write-and-nested", "regression: the watches were armed in a goroutine (first write lost, fixed: 42a9597) and did not reach sub-directories (fixed: b031bfb)",
		C19Case{Ops: []c19Op{{Kind: "write", Dir: 0, File: "mine/nested.toml"}, {Kind: "write", Dir: 3, File: "mine/deeper/still.toml"}, {Kind: "write", Dir: 1, File: "mine/notes.txt"}}, CancelWith: "idle"})

	// C17 / C16
	led := func(code evdev.EvCode) string { return device.KeyToLedName[code] }
	ld := &Desc{Mode: "interrupt", Exit: []uint16{}, Channel: 1, Velocity: 64, DefMapping: "Piano", Colors: ledPalette,
		Actions:  []ActionDef{{Code: uint16(evdev.KEY_F2), Action: "octave_up"}, {Code: uint16(evdev.KEY_F1), Action: "octave_down"}, {Code: uint16(evdev.KEY_ESC), Action: "panic"}},
		Mappings: []MappingDef{{Name: "Piano", KeySubs: []string{""}, Keys: []KeyDef{{Code: uint16(evdev.KEY_Z), Note: 60}, {Code: uint16(evdev.KEY_X), Note: 62}, {Code: uint16(evdev.KEY_C), Note: 127}}}}}
	layout := []string{led(evdev.KEY_F2), led(evdev.KEY_Z), led(evdev.KEY_X), led(evdev.KEY_C), led(evdev.KEY_F1), "Logo 1"}
	write("C17", "velocity-zero-clears", "regression: MIDI-in Note On velocity 0 never cleared the highlight (fixed: 687d1d8)",
		C17Case{D: ld, Controller: "Generic Keyboard", LEDs: layout, Steps: []LedStep{{T: "midi", Midi: []byte{0x90, 60, 100}}, {T: "observe"}, {T: "midi", Midi: []byte{0x90, 60, 0}}, {T: "observe"},
			{T: "midi", Midi: []byte{0x93, 62, 90}}, {T: "observe"}, {T: "midi", Midi: []byte{0x93, 62, 0}}, {T: "observe"}}})
	write("C17", "led0-not-clobbered", "regression: actions without key/LED wrote LED 0 (here the octave_up key; multinote, channel, mapping, semitone keys are not bound) (fixed: 2ac18d5)",
		C17Case{D: ld, Controller: "HyperX Alloy Elite 2 (HP)", LEDs: layout, Steps: []LedStep{{T: "observe"}, {T: "key", Code: uint16(evdev.KEY_F2), Val: 1}, {T: "key", Code: uint16(evdev.KEY_F2), Val: 0}, {T: "observe"},
			{T: "key", Code: uint16(evdev.KEY_F2), Val: 1}, {T: "key", Code: uint16(evdev.KEY_F2), Val: 0}, {T: "observe"}, {T: "key", Code: uint16(evdev.KEY_Z), Val: 1}, {T: "observe"}}})
	hist := []LedStep{{T: "key", Code: uint16(evdev.KEY_Z), Val: 1}, {T: "key", Code: uint16(evdev.KEY_X), Val: 1}, {T: "key", Code: uint16(evdev.KEY_F2), Val: 1}, {T: "key", Code: uint16(evdev.KEY_F2), Val: 0}, {T: "key", Code: uint16(evdev.KEY_C), Val: 1}}
	write("C16", "disconnect-with-held-notes", "regression: disconnect clean-up raced with the LED loop (fixed: 10abcb3)",
		C16Case{D: ld, LEDs: layout, Hist: [][]LedStep{hist, hist, hist[:2]}, Midi: [][]byte{{0x90, 60, 100}, {0x80, 60, 0}}, Phase: []string{"running", "after-key", "between-frames"}, Delay: []int{3, 0, 5}})
}
