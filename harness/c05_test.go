package harness

import (
	"fmt"
	"sort"
	"testing"

	"github.com/gethiox/HIDI/internal/pkg/midi/device/config"
	"pgregory.net/rapid"
)

// C05: corner configurations as text through ParseData; whatever the parser accepts is run.

// corner draws a value for a field whose valid range is lo..hi: mostly valid (edges favoured),
// occasionally (1 in 16) just outside, so that about half of the generated files are accepted.
func corner(t *rapid.T, label string, lo, hi int, outside ...int) int {
	switch k := rapid.IntRange(0, 39).Draw(t, label+"Kind"); {
	case k == 0:
		return rapid.SampledFrom(outside).Draw(t, label+"Out")
	case k <= 12:
		return rapid.SampledFrom([]int{lo, hi, lo + 1, hi - 1}).Draw(t, label+"Edge")
	}
	return rapid.IntRange(lo, hi).Draw(t, label)
}

func genC05(t *rapid.T) KeyCase {
	d := &Desc{Mode: rapid.SampledFrom(allModes).Draw(t, "mode"), Exit: []uint16{}, Colors: colorPalette, DefMapping: "A"}
	d.Channel = corner(t, "channel", 1, 16, 0, 17, -1, 18)
	d.Velocity = corner(t, "velocity", 0, 127, -1, 128, 129)
	d.Octave = rapid.IntRange(-2, 2).Draw(t, "octave")
	d.Semitone = rapid.IntRange(-3, 3).Draw(t, "semitone")
	// every action the code under test accepts, taken from its own table: an action this harness has no model of (one added
	// later) is bound and pressed like the others - well-formedness needs no model
	acts := []string{"panic", "channel_up", "channel_down"}
	var rest []string
	for a := range config.SupportedActions {
		if a != "panic" && a != "channel_up" && a != "channel_down" {
			rest = append(rest, string(a))
		}
	}
	sort.Strings(rest)
	acts = append(acts, rest...)
	for i, a := range acts {
		d.Actions = append(d.Actions, ActionDef{Code: uint16(59 + i), Action: a})
	}
	m := MappingDef{Name: "A", KeySubs: []string{""}}
	nk := rapid.IntRange(1, 4).Draw(t, "keys")
	for i := 0; i < nk; i++ {
		m.Keys = append(m.Keys, KeyDef{Code: uint16(30 + i), Note: corner(t, "note", 0, 127, -1, 128, 129), Off: corner(t, "koff", 0, 15, -1, 16, 17)})
	}
	m.AnalogSubs = []AnalogSub{{Sub: "", Default: floatp(rapid.SampledFrom([]float64{0, 0.1, 0.1, 0.002, 0.25, 0.3, 0.5, 0.9}).Draw(t, "dz"))}}
	if rapid.IntRange(0, 3).Draw(t, "dzAny") == 0 {
		m.AnalogSubs[0].Default = floatp(float64(rapid.IntRange(0, 950).Draw(t, "dzMille")) / 1000)
	}
	ranges := []axisRange{{0, 255}, {0, 255}, {-128, 127}, {-32768, 32767}, {-1, 1}, {0, 1023}, {0, 65535}, {-127, 127}, {0, 4}, {1, 255}}
	kinds := rapid.SliceOfN(rapid.IntRange(0, 4), 1, 4).Draw(t, "axisKinds")
	c05Codes := drawAxisCodes(t, []uint16{0, 1, 2, 3}, len(kinds))
	for i, k := range kinds {
		rg := rapid.SampledFrom(ranges).Draw(t, "range")
		a := AxisDef{Sub: "", Code: c05Codes[i], Min: rg.Min, Max: rg.Max}
		if rapid.Bool().Draw(t, "hasOff") {
			a.Off = intp(corner(t, "aoff", 0, 15, -1, 16, 255, 256, 300))
		}
		if rapid.Bool().Draw(t, "flip") {
			a.Flip = boolp(true)
		}
		if rapid.IntRange(0, 3).Draw(t, "ownDeadzone") == 0 {
			a.Deadzone = floatp(rapid.SampledFrom([]float64{0, 0.05, 0.2, 0.25, 0.33, 0.5, 0.75, 0.95}).Draw(t, "adz"))
		}
		if rg.Min == 0 && rapid.Bool().Draw(t, "center") {
			a.Center = boolp(true)
		}
		switch k {
		case 0:
			a.Type = "cc"
			a.CC = intp(corner(t, "cc", 0, 119, -1, 120, 127, 128, 130))
		case 1:
			a.Type = "cc"
			a.CC = intp(corner(t, "cc", 0, 119, -1, 120, 127, 128, 130))
			a.CCNeg = intp(corner(t, "ccneg", 0, 119, -1, 120, 127, 128, 130))
			if rapid.Bool().Draw(t, "hasOffNeg") {
				a.OffNeg = intp(corner(t, "aoffneg", 0, 15, -1, 16, 255, 256, 300))
			}
		case 2:
			a.Type = "pitch_bend"
		case 3:
			a.Type = "key"
			a.Note = intp(corner(t, "anote", 0, 127, -1, 128, 129))
			if rapid.Bool().Draw(t, "hasNoteNeg") {
				a.NoteNeg = intp(corner(t, "anoteneg", 0, 127, -1, 128, 129))
			}
		case 4:
			a.Type = "action"
			a.Action = strp("channel_up")
			a.ActionNeg = strp("channel_down")
			if rapid.Bool().Draw(t, "anyAxisAction") {
				a.Action = strp(rapid.SampledFrom(acts).Draw(t, "axisAction"))
				a.ActionNeg = strp(rapid.SampledFrom(acts).Draw(t, "axisActionNeg"))
			}
		}
		m.Axes = append(m.Axes, a)
	}
	// a second event node of the device (touchpad) may report the same axis codes with its own ranges
	if rapid.IntRange(0, 2).Draw(t, "touchpad") == 0 {
		m.AnalogSubs = append(m.AnalogSubs, AnalogSub{Sub: "Touchpad", Default: floatp(0)})
		for _, a := range append([]AxisDef{}, m.Axes...) {
			if a.Type != "cc" && a.Type != "pitch_bend" {
				continue
			}
			rg := rapid.SampledFrom(append(ranges, axisRange{0, 1919}, axisRange{0, 941})).Draw(t, "touchpadRange")
			b := a
			b.Sub, b.Min, b.Max, b.Center = "Touchpad", rg.Min, rg.Max, nil
			if rg.Min == 0 && rapid.Bool().Draw(t, "touchpadCenter") {
				b.Center = boolp(true)
			}
			m.Axes = append(m.Axes, b)
		}
	}
	d.Mappings = []MappingDef{m}

	var steps []Step
	n := rapid.IntRange(1, 30).Draw(t, "len")
	tap := func(code uint16) {
		steps = append(steps, Step{T: "key", Code: code, Val: 1}, Step{T: "key", Code: code, Val: 0})
	}
	for len(steps) < n {
		switch rapid.IntRange(0, 5).Draw(t, "what") {
		case 0:
			tap(59) // panic
		case 1: // channel burst
			code := uint16(60 + rapid.IntRange(0, 1).Draw(t, "chdir"))
			for k := rapid.IntRange(1, 16).Draw(t, "burst"); k > 0; k-- {
				tap(code)
			}
		case 2:
			tap(uint16(30 + rapid.IntRange(0, nk-1).Draw(t, "key")))
		case 3: // any other action of the table, once or many times in a row
			code := uint16(62 + rapid.IntRange(0, len(rest)-1).Draw(t, "other"))
			k := 1
			if rapid.IntRange(0, 2).Draw(t, "otherBurst") == 0 {
				k = rapid.IntRange(2, 16).Draw(t, "otherBurstLen")
			}
			for ; k > 0; k-- {
				tap(code)
			}
		default:
			ai := rapid.IntRange(0, len(m.Axes)-1).Draw(t, "axis")
			a := m.Axes[ai]
			clamp := func(v int64) int64 {
				if v < int64(a.Min) {
					return int64(a.Min)
				}
				if v > int64(a.Max) {
					return int64(a.Max)
				}
				return v
			}
			// the raw positions at which the deadzone of this axis ends (what was sent before decides nothing in the statement,
			// but an implementation may remember it: positions are also approached in small steps from either side)
			dz := effectiveDeadzone(&m, &a)
			var edges []int64
			switch {
			case a.Min < 0:
				edges = []int64{int64(dz * float64(a.Max)), -int64(dz * float64(-int64(a.Min)))}
			case a.Center != nil && *a.Center:
				half := float64(a.Max) / 2
				edges = []int64{int64(half + dz*half), int64(half - dz*half)}
			default:
				edges = []int64{int64(dz * float64(a.Max))}
			}
			var v int64
			walk := 0
			switch rapid.IntRange(0, 6).Draw(t, "pos") {
			case 0:
				v = int64(a.Min)
			case 1:
				v = int64(a.Max)
			case 2:
				v = (int64(a.Min) + int64(a.Max)) / 2
			case 3:
				v = clamp(rapid.SampledFrom(edges).Draw(t, "edge") + int64(rapid.IntRange(-3, 3).Draw(t, "edgeOff")))
			case 4: // come from well outside the deadzone, then walk across its edge in single raw steps
				e := rapid.SampledFrom(edges).Draw(t, "edge")
				dir := int64(1)
				if e < (int64(a.Min)+int64(a.Max))/2 || (a.Min < 0 && e < 0) {
					dir = -1
				}
				if a.Min >= 0 && !(a.Center != nil && *a.Center) {
					dir = 1
				}
				steps = append(steps, Step{T: "abs", Sub: a.Sub, Code: a.Code, Val: int32(clamp(e + dir*int64(rapid.IntRange(8, 60).Draw(t, "from"))))})
				v = clamp(e + dir*4)
				walk = -int(dir)
			default:
				v = rapid.Int64Range(int64(a.Min), int64(a.Max)).Draw(t, "raw")
			}
			steps = append(steps, Step{T: "abs", Sub: a.Sub, Code: a.Code, Val: int32(v)})
			for k := 0; walk != 0 && k < 8; k++ {
				v = clamp(v + int64(walk))
				steps = append(steps, Step{T: "abs", Sub: a.Sub, Code: a.Code, Val: int32(v)})
			}
		}
	}
	return KeyCase{D: d, Steps: steps, NoLogs: rapid.Bool().Draw(t, "nologs")}
}

func checkC05(c KeyCase) (bool, *Violation) {
	text := RenderTOML(c.D, nil)
	var cfg config.Config
	var perr error
	if v := guard("C05", "parser-panic", func() *Violation {
		cfg, perr = config.ParseData([]byte(text))
		return nil
	}); v != nil {
		return false, v
	}
	if perr != nil {
		classify("configuration rejected by the parser (not run)")
		return false, nil
	}
	classify("configuration accepted")
	res := RunDevice(cfg, c.D, c.Steps, EngineOpts{NoLogs: c.NoLogs})
	corner := c.D.Channel != 1 || c.D.Velocity == 1 || c.D.Velocity == 127
	for _, m := range c.D.Mappings {
		for _, k := range m.Keys {
			if k.Off >= 15 {
				corner = true
			}
		}
		for _, a := range m.Axes {
			if (a.CC != nil && *a.CC >= 100) || (a.Off != nil && *a.Off >= 15) {
				corner = true
			}
		}
	}
	sawPanicOrEnd := false
	check := func(where string, out [][]byte) *Violation {
		for _, msg := range out {
			if why := wellFormed(msg); why != "" {
				return violation("C05", "malformed-message", statusClass(msg), "%s: emitted % x: %s (default channel %d, velocity %d)\nconfiguration:\n%s",
					where, msg, why, c.D.Channel, c.D.Velocity, text)
			}
		}
		return nil
	}
	for i, sr := range res.Steps {
		s := c.Steps[i]
		if s.T == "key" && s.Code == 59 && s.Val == 1 {
			sawPanicOrEnd = true
		}
		if s.T == "abs" {
			sawPanicOrEnd = true
		}
		if v := check(fmt.Sprintf("step %d (%s)", i, s), sr.Out); v != nil {
			return true, v
		}
	}
	if v := check("disconnect clean-up", res.Tail); v != nil {
		return true, v
	}
	if res.Panic != "" {
		return true, violation("C05", "panic", "", "device code panicked on an accepted configuration: %s\n%s", res.Panic, text)
	}
	if res.Stuck != "" {
		return true, violation("C05", "stuck", "", "processing did not return\n%s", firstLines(res.Stuck, 40))
	}
	return corner && sawPanicOrEnd, nil
}

func statusClass(m []byte) string {
	if len(m) != 3 {
		return "length"
	}
	switch m[0] & 0xf0 {
	case 0x80, 0x90, 0xB0, 0xE0:
		return "data-byte"
	}
	return "status"
}

func TestC05(t *testing.T) { ReplayOrRapid(t, NewRun(t, "C05"), checkC05, genC05) }
