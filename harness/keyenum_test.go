package harness

import (
	"fmt"
	"testing"

	"pgregory.net/rapid"
)

// ---- C01: every cut point of bounded histories (fault enumeration) ----

func checkC01Cuts(c KeyCase) (bool, *Violation) {
	nt := false
	for k := 0; k <= len(c.Steps); k++ {
		n, v := checkC01(KeyCase{D: c.D, Steps: c.Steps[:k], NoLogs: c.NoLogs})
		if v != nil {
			v.Message = fmt.Sprintf("[event stream cut after %d of %d events] %s", k, len(c.Steps), v.Message)
			return true, v
		}
		nt = nt || n
		classify("cut points executed")
	}
	return nt, nil
}

func genC01Cuts(t *rapid.T) KeyCase {
	d := genWorld(t, WorldOpts{Modes: allModes, MaxMappings: 2, Actions: allKeyActions, ActionProb: 60, KeyAxes: 2, Subs: 2})
	steps := genHistory(t, d, HistOpts{MaxLen: 24, StateBias: 40, BurstMax: 2, Axes: true, UnmappedKey: true})
	return KeyCase{D: d, Steps: steps, NoLogs: true}
}

func TestC01Cuts(t *testing.T) { ReplayOrRapid(t, NewRun(t, "C01"), checkC01Cuts, genC01Cuts) }

// ---- C13: panic inserted at every index ----

func checkC13All(c C13Case) (bool, *Violation) {
	nt := false
	for at := 0; at <= len(c.Steps); at++ {
		n, v := checkC13(C13Case{D: c.D, Steps: c.Steps, At: at, Hold: 0, NoLogs: c.NoLogs})
		if v != nil {
			v.Message = fmt.Sprintf("[panic inserted before event %d of %d] %s", at, len(c.Steps), v.Message)
			return true, v
		}
		nt = nt || n
		classify("insertion points executed")
	}
	return nt, nil
}

func genC13All(t *rapid.T) C13Case {
	c := genC13(t)
	if len(c.Steps) > 24 {
		c.Steps = c.Steps[:24]
	}
	c.At, c.Hold = 0, 0
	// (genC13 kept the exit sequence only if it never completes with the panic at ITS insertion point; here every point is used)
	c.D.Exit = []uint16{}
	return c
}

func TestC13All(t *testing.T) { ReplayOrRapid(t, NewRun(t, "C13"), checkC13All, genC13All) }

// ---- C03: all alternating press/release words over a few colliding keys ----

func wordWorld(mode string, nSame int, withOther bool) *Desc {
	d := &Desc{Mode: mode, Exit: []uint16{}, Channel: 1, Velocity: 100, DefMapping: "M", Colors: colorPalette}
	m := MappingDef{Name: "M", KeySubs: []string{""}}
	for i := 0; i < nSame; i++ {
		m.Keys = append(m.Keys, KeyDef{Code: uint16(30 + i), Note: 60})
	}
	if withOther {
		m.Keys = append(m.Keys, KeyDef{Code: 40, Note: 61})
	}
	d.Mappings = []MappingDef{m}
	return d
}

func TestC03Words(t *testing.T) {
	r := NewRun(t, "C03")
	defer r.Finish()
	curRun = r
	L := r.Scale(6, 8)
	r.SetExtra("exhaustive_word_length", L)
	type variant struct {
		same  int
		other bool
		maxL  int
	}
	variants := []variant{{3, false, L}, {2, true, L}, {4, false, L - 2}}
	idx := 0
	for _, mode := range allModes {
		for _, vr := range variants {
			d := wordWorld(mode, vr.same, vr.other)
			nk := len(d.Mappings[0].Keys)
			word := make([]int, 0, vr.maxL)
			var rec func() *Violation
			rec = func() *Violation {
				if len(word) > 0 {
					idx++
					if idx%r.Shards == r.Shard {
						down := map[int]bool{}
						steps := make([]Step, 0, len(word))
						for _, k := range word {
							val := int32(1)
							if down[k] {
								val = 0
							}
							down[k] = !down[k]
							steps = append(steps, Step{T: "key", Code: d.Mappings[0].Keys[k].Code, Val: val})
						}
						c := KeyCase{D: d, Steps: steps, NoLogs: true}
						nt, v := checkC03(c)
						if v != nil && !r.Known(v) {
							r.Fail(c, v)
							return v
						}
						r.Count(nt, c, func() interface{} { return c })
					}
				}
				if len(word) == vr.maxL {
					return nil
				}
				for k := 0; k < nk; k++ {
					word = append(word, k)
					if v := rec(); v != nil {
						return v
					}
					word = word[:len(word)-1]
				}
				return nil
			}
			if v := rec(); v != nil {
				t.Fatalf("VIOLATION %s", v)
			}
		}
	}
	r.ClassN("exhaustive words (all shards)", int64(idx))
}

// ---- C04: arithmetic grid ----

func TestC04Grid(t *testing.T) {
	r := NewRun(t, "C04")
	defer r.Finish()
	curRun = r
	semis := []int{-13, -1, 0, 1, 13}
	idx := 0
	// first the channel grid (every channel, a few semitone values), then the pitch grid (every semitone shift -30..30 against
	// every octave -13..13 on one channel each: octaves and semitones that cancel, or almost)
	type cell struct{ oct, semi, ch int }
	var cells []cell
	for oct := -12; oct <= 12; oct++ {
		for _, semi := range semis {
			for ch := 1; ch <= 16; ch++ {
				cells = append(cells, cell{oct, semi, ch})
			}
		}
	}
	nChannelGrid := len(cells)
	for oct := -13; oct <= 13; oct++ {
		for semi := -30; semi <= 30; semi++ {
			cells = append(cells, cell{oct, semi, 1 + (oct+13+semi+30)%16})
		}
	}
	for ci, cl := range cells {
		oct, semi, ch := cl.oct, cl.semi, cl.ch
		{
			{
				idx++
				if idx%r.Shards != r.Shard {
					continue
				}
				if !r.Thorough() && ci < nChannelGrid && (ch%4 != idx%4) {
					continue // quick: a quarter of the channels per (octave, semitone)
				}
				d := &Desc{Mode: "off", Exit: []uint16{}, Octave: oct, Semitone: semi, Channel: ch, Velocity: 1 + (idx % 127), DefMapping: "G", Colors: colorPalette}
				m := MappingDef{Name: "G", KeySubs: []string{""}}
				var steps []Step
				for b := 0; b < 128; b++ {
					code := uint16(0x100 + b)
					m.Keys = append(m.Keys, KeyDef{Code: code, Note: b, Off: (b + idx) % 16})
					steps = append(steps, Step{T: "key", Code: code, Val: 1}, Step{T: "key", Code: code, Val: 0})
				}
				d.Mappings = []MappingDef{m}
				c := KeyCase{D: d, Steps: steps, NoLogs: true}
				nt, v := checkC04(c)
				if v != nil && !r.Known(v) {
					r.Fail(c, v)
					t.Fatalf("VIOLATION %s", v)
				}
				key := fmt.Sprintf("grid oct=%d semi=%d ch=%d", oct, semi, ch)
				r.Count(nt, key, func() interface{} { return key + ": 128 base notes, offsets (base+k) mod 16, press+release each" })
				r.ClassN("grid presses", 128)
			}
		}
	}
}
