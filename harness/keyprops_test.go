package harness

import (
	"os"
	"sort"
	"testing"

	"pgregory.net/rapid"
)

// ---- generators for the key-engine properties ----

func genC01(t *rapid.T) KeyCase {
	d := genWorld(t, WorldOpts{Modes: allModes, MaxMappings: 3, Actions: allKeyActions, ActionProb: 70, KeyAxes: 2, Subs: 2, AxesVary: true, Twins: true, Overlap: true})
	steps := genHistory(t, d, HistOpts{MaxLen: 60, StateBias: 40, BurstMax: 4, Axes: true, Repeats: true, MidiIn: true, UnmappedKey: true})
	return KeyCase{D: d, Steps: steps, NoLogs: rapid.IntRange(0, 9).Draw(t, "nologs") > 0, Bystander: genBystander(t, d)}
}

func genC02(t *rapid.T) KeyCase {
	// key-emulating axes are part of the worlds (held deflected across the actions, shaped differently or absent in the other
	// mappings): "the actions themselves emit no MIDI messages" is owed whatever else the device is holding
	d := genWorld(t, WorldOpts{Modes: allModes, MaxMappings: 3, Actions: allKeyActions[:10], ActionProb: 80, Subs: 2, Twins: true, Overlap: true, KeyAxes: 2, AxesVary: true})
	steps := genHistory(t, d, HistOpts{MaxLen: 50, StateBias: 70, BurstMax: 3, Repeats: true, UnmappedKey: true, Axes: true, MidiIn: true})
	return KeyCase{D: d, Steps: steps, NoLogs: rapid.IntRange(0, 7).Draw(t, "nologs") > 0, Bystander: genBystander(t, d)}
}

func genC03(t *rapid.T) KeyCase {
	d := genWorld(t, WorldOpts{Modes: allModes, MaxMappings: 2, Actions: append(append([]string{}, stateActions...), "panic"), ActionProb: 60, Subs: 2, Twins: true})
	steps := genHistory(t, d, HistOpts{MaxLen: 50, StateBias: 35, BurstMax: 2, Repeats: true, MidiIn: true})
	return KeyCase{D: d, Steps: steps, NoLogs: rapid.IntRange(0, 7).Draw(t, "nologs") > 0, Bystander: genBystander(t, d)}
}

func genC04(t *rapid.T) KeyCase {
	d := genWorld(t, WorldOpts{Modes: allModes, MaxMappings: 3, Actions: allKeyActions[:10], ActionProb: 85, WideDefaults: true, Subs: 2, Velocity0: true, Overlap: true})
	steps := genHistory(t, d, HistOpts{MaxLen: 60, StateBias: 30, BurstMax: 14, NoPanic: true})
	// now and then one transposition action is tapped more than 128 times in a row (every value is reachable; the counters
	// must keep counting), followed by a few note presses under that transposition and on the way back
	if rapid.IntRange(0, 11).Draw(t, "longRun") == 0 {
		h := newHistState(d)
		var tr []uint16
		for _, c := range h.actKeys {
			switch h.actions[c] {
			case "octave_up", "octave_down", "semitone_up", "semitone_down":
				tr = append(tr, c)
			}
		}
		sort.Slice(tr, func(i, j int) bool { return tr[i] < tr[j] })
		if len(tr) > 0 && len(h.noteKeys) > 0 {
			// (appended after the history: every key is let go first)
			var tail []Step
			downNow := map[PK]bool{}
			for _, s := range steps {
				if s.T == "key" {
					downNow[PK{s.SK(), s.Code}] = s.Val == 1
				}
			}
			for _, s := range steps {
				if k := (PK{s.SK(), s.Code}); s.T == "key" && downNow[k] {
					tail = append(tail, Step{T: "key", Sub: s.Sub, Node: s.Node, Code: s.Code, Val: 0})
					downNow[k] = false
				}
			}
			c := tr[rapid.IntRange(0, len(tr)-1).Draw(t, "longRunAction")]
			tapK := func(code uint16, sub string) {
				tail = append(tail, Step{T: "key", Sub: sub, Code: code, Val: 1}, Step{T: "key", Sub: sub, Code: code, Val: 0})
			}
			n := rapid.IntRange(120, 140).Draw(t, "longRunTaps")
			for i := 0; i < n; i++ {
				tapK(c, "")
				if i > 100 && rapid.IntRange(0, 5).Draw(t, "noteMeanwhile") == 0 {
					k := h.noteKeys[rapid.IntRange(0, len(h.noteKeys)-1).Draw(t, "noteKey")]
					tapK(k&^(twinBit|nodeBit), h.sub[k])
				}
			}
			steps = append(steps, tail...)
		}
	}
	return KeyCase{D: d, Steps: steps, NoLogs: rapid.IntRange(0, 7).Draw(t, "nologs") > 0, Bystander: genBystander(t, d)}
}

// boundTransposition truncates the history before |octave| would exceed 12 or |semitone| 120:
// the property does not speak about the storage limit of the counters, only about the
// intermediate of the pitch sum (reached from |octave| >= 11).
func boundTransposition(d *Desc, steps []Step) []Step {
	m := NewModel(d)
	for i, s := range steps {
		if s.T == "key" {
			m.Key(s.SK(), s.Code, s.Val)
		}
		if m.Octave > 12 || m.Octave < -12 || m.Semitone > 120 || m.Semitone < -120 {
			return steps[:i]
		}
	}
	return steps
}

func genC13(t *rapid.T) C13Case {
	acts := append(append([]string{}, stateActions...), "panic")
	d := genWorld(t, WorldOpts{Modes: allModes, MaxMappings: 2, Actions: acts, ActionProb: 60, Subs: 1, Overlap: true, ExitMax: 3, ExitOverlap: true})
	if _, ok := panicCode(d); !ok {
		// construction: always have a panic key
		used := map[uint16]bool{}
		for _, a := range d.Actions {
			used[a.Code] = true
		}
		for _, m := range d.Mappings {
			for _, k := range m.Keys {
				used[k.Code] = true
			}
		}
		for _, c := range keyPool {
			if !used[c] {
				d.Actions = append(d.Actions, ActionDef{Code: c, Action: "panic"})
				break
			}
		}
	}
	// the base history may contain panic taps itself (half of the cases): several panics with state changes between them
	steps := genHistory(t, d, HistOpts{MaxLen: 40, StateBias: 30, BurstMax: 2, NoPanic: rapid.Bool().Draw(t, "basePanicFree"), MidiIn: true,
		// a third of the histories press action keys with no regard for what is held (a third action while a pair is down,
		// two pairs at once): the comparison is device against device, the reference model is not consulted for these
		AnyAction: rapid.IntRange(0, 2).Draw(t, "anyAction") == 0})
	// panic is injected at every point of the history - also while both keys of an up/down pair are held (C04 excludes a
	// third action there; C13 quantifies over every point, and panic is the one action that must always get through);
	// half of the cases aim at such a point when the history has one
	at := rapid.IntRange(0, len(steps)).Draw(t, "at")
	if pairPoints := pairHeldPoints(d, steps); len(pairPoints) > 0 && rapid.Bool().Draw(t, "atPairHeld") {
		at = pairPoints[rapid.IntRange(0, len(pairPoints)-1).Draw(t, "atPair")]
	}
	// A pair can be down without its reset having happened: with one key of pair X held, both keys of a pair Y that the device
	// looks at first (mapping, octave, semitone, channel is its order) are pressed; X's second key, pressed now, only repeats
	// Y's reset; Y is let go. Both keys of X are down, X was never reset - and panic, pressed now, has to go to the channel (and
	// leave the octave ...) the device is on, not to a neutral one. Appended to a tenth of the histories.
	if rapid.IntRange(0, 9).Draw(t, "stalePair") == 0 {
		codeOf := map[string]uint16{}
		for _, a := range d.Actions {
			codeOf[a.Action] = a.Code
		}
		order := [][2]string{{"mapping_up", "mapping_down"}, {"octave_up", "octave_down"}, {"semitone_up", "semitone_down"}, {"channel_up", "channel_down"}}
		var have [][2]string
		for _, pr := range order {
			if _, ok := codeOf[pr[0]]; ok {
				if _, ok2 := codeOf[pr[1]]; ok2 {
					have = append(have, pr)
				}
			}
		}
		if len(have) >= 2 {
			yi := rapid.IntRange(0, len(have)-2).Draw(t, "pairY")
			xi := rapid.IntRange(yi+1, len(have)-1).Draw(t, "pairX")
			y, x := have[yi], have[xi]
			xFirst := rapid.IntRange(0, 1).Draw(t, "xFirst")
			// every key is let go first
			down := map[uint16]Step{}
			for _, st := range steps {
				if st.T == "key" {
					if st.Val == 1 {
						down[st.Code] = st
					} else if st.Val == 0 {
						delete(down, st.Code)
					}
				}
			}
			var held []uint16
			for c0 := range down {
				held = append(held, c0)
			}
			sort.Slice(held, func(i, j int) bool { return held[i] < held[j] })
			for _, c0 := range held {
				st := down[c0]
				st.Val = 0
				steps = append(steps, st)
			}
			k := func(name string, val int32) Step { return Step{T: "key", Code: codeOf[name], Val: val} }
			steps = append(steps, k(x[xFirst], 1), k(x[xFirst], 0), k(x[xFirst], 1), // X's first key: two steps away from neutral, held
				k(y[0], 1), k(y[1], 1), k(x[1-xFirst], 1), k(y[1], 0), k(y[0], 0))
			at = len(steps)
		}
	}
	hold := 0
	if rapid.IntRange(0, 3).Draw(t, "holdPanic") == 0 {
		hold = rapid.IntRange(0, 6).Draw(t, "hold")
		// holding is legal only while no further action key is pressed with a pair complete; keep it simple:
		// the panic key is released before the next action press
		for j := at; j < at+hold && j < len(steps); j++ {
			if isActionKey(d, steps[j].Code) {
				hold = j - at
				break
			}
		}
	}
	c := C13Case{D: d, Steps: steps, At: at, Hold: hold, NoLogs: rapid.IntRange(0, 7).Draw(t, "nologs") > 0}
	// The worlds have exit sequences (often with the panic key in them, as the factory keyboard has): a panic pressed while
	// other keys of the sequence are held is a panic like any other. Only a press that COMPLETES the sequence is swallowed
	// (C14 says so), which would make the two histories incomparable: a case in which the sequence is ever complete, with or
	// without the inserted panic, runs without exit sequence instead.
	if pc, ok := panicCode(d); ok && len(d.Exit) >= 2 && rapid.Bool().Draw(t, "panicInExit") {
		in := false
		for _, e := range d.Exit {
			in = in || e == pc
		}
		if !in {
			d.Exit[rapid.IntRange(0, len(d.Exit)-1).Draw(t, "panicExitPos")] = pc
		}
	}
	if len(d.Exit) > 0 {
		pc, _ := panicCode(d)
		completes := func(withPanic bool) bool {
			down := map[uint16]bool{}
			complete := false
			test := func() {
				all := true
				for _, e := range d.Exit {
					all = all && down[e]
				}
				complete = complete || all
			}
			rel := at + hold
			if rel > len(steps) {
				rel = len(steps)
			}
			for i := 0; i <= len(steps); i++ {
				if withPanic && i == at {
					down[pc] = true
					test()
				}
				if withPanic && i == rel {
					delete(down, pc)
				}
				if i < len(steps) && steps[i].T == "key" {
					code := steps[i].Code &^ (twinBit | nodeBit)
					if steps[i].Val == 1 {
						down[code] = true
						test()
					} else if steps[i].Val == 0 {
						delete(down, code)
					}
				}
			}
			return complete
		}
		if completes(false) || completes(true) {
			d.Exit = []uint16{}
		}
	}
	// in a quarter of the cases the panic action is (also) bound to a direction of a hat, and the inserted panic is a push
	// of that hat: "triggering the panic action" is not tied to a key
	if rapid.IntRange(0, 3).Draw(t, "viaAxis") == 0 {
		c.ViaAxis = rapid.SampledFrom([]int{1, -1}).Draw(t, "axisDir")
		for mi := range d.Mappings {
			m := &d.Mappings[mi]
			if len(m.AnalogSubs) == 0 {
				m.AnalogSubs = []AnalogSub{{Sub: "", Default: floatp(0)}}
			}
			a := AxisDef{Sub: "", Code: c13PanicAxis, Type: "action", Min: -1, Max: 1}
			if c.ViaAxis > 0 {
				a.Action = strp("panic")
			} else {
				a.Action = strp("cc_learning")
				a.ActionNeg = strp("panic")
			}
			m.Axes = append(m.Axes, a)
		}
	}
	return c
}

func isActionKey(d *Desc, code uint16) bool {
	for _, a := range d.Actions {
		if a.Code == code {
			return true
		}
	}
	return false
}

// pairHeldPoints: the positions of the history at which both keys of some up/down pair are held.
func pairHeldPoints(d *Desc, steps []Step) []int {
	m := NewModel(d)
	var out []int
	for i := 0; i <= len(steps); i++ {
		if m.CompletePairHeld() {
			out = append(out, i)
		}
		if i < len(steps) && steps[i].T == "key" {
			m.Key(steps[i].SK(), steps[i].Code, steps[i].Val)
		}
	}
	return out
}

func legalPanicPoints(d *Desc, steps []Step) []int {
	m := NewModel(d)
	var legal []int
	for i := 0; i <= len(steps); i++ {
		if !m.CompletePairHeld() {
			legal = append(legal, i)
		}
		if i < len(steps) && steps[i].T == "key" {
			m.Key(steps[i].SK(), steps[i].Code, steps[i].Val)
		}
	}
	if len(legal) == 0 {
		legal = []int{0}
	}
	return legal
}

func genC14(t *rapid.T) KeyCase {
	d := genWorld(t, WorldOpts{Modes: allModes, MaxMappings: 2, Actions: allKeyActions, ActionProb: 50, ExitMax: 3, ExitOverlap: true, Subs: 3})
	h := newHistState(d)
	h.scatter(t)
	n := rapid.IntRange(1, 40).Draw(t, "histLen")
	keys := append(append(append([]uint16{}, h.noteKeys...), h.actKeys...), h.spare...)
	for i := 0; i < n; i++ {
		// bias towards the exit keys so that completions and near misses are frequent
		if len(d.Exit) > 0 && rapid.IntRange(0, 9).Draw(t, "exitBias") < 6 {
			h.toggle(d.Exit[rapid.IntRange(0, len(d.Exit)-1).Draw(t, "exitKey")])
		} else {
			h.toggle(keys[rapid.IntRange(0, len(keys)-1).Draw(t, "key")])
		}
		// auto-repeat of a held key (value 2), as the kernel delivers it: never a press
		if len(h.down) > 0 && rapid.IntRange(0, 5).Draw(t, "repeat") == 0 {
			var held []uint16
			for c := range h.down {
				held = append(held, c)
			}
			sort.Slice(held, func(a, b int) bool { return held[a] < held[b] })
			c := held[rapid.IntRange(0, len(held)-1).Draw(t, "repeatKey")]
			h.steps = append(h.steps, Step{T: "rep", Sub: h.sub[c], Code: c, Val: 2})
		}
	}
	return KeyCase{D: d, Steps: h.steps, NoLogs: rapid.Bool().Draw(t, "nologs")}
}

func TestC01(t *testing.T) { ReplayOrRapid(t, NewRun(t, "C01"), checkC01, genC01) }

// TestC01BusySink: the C01 cases with a receiver that is busy when the device disconnects: the output queue is full for
// 0.6-0.9 s (quick; up to 5.2 s thorough) and is read again afterwards. Processing may end late, but not before every
// sounding note was released, and nothing may be emitted after it ended.
func genC01BusySink(t *rapid.T) KeyCase {
	c := genC01(t)
	if os.Getenv("VERIF_TIER") == "thorough" {
		c.BusySinkMs = rapid.SampledFrom([]int{600, 1100, 2100, 5200}).Draw(t, "busySinkMs")
	} else {
		c.BusySinkMs = rapid.IntRange(600, 900).Draw(t, "busySinkMs")
	}
	return c
}
func TestC01BusySink(t *testing.T) { ReplayOrRapid(t, NewRun(t, "C01"), checkC01, genC01BusySink) }
func TestC02(t *testing.T)         { ReplayOrRapid(t, NewRun(t, "C02"), checkC02, genC02) }
func TestC03(t *testing.T)         { ReplayOrRapid(t, NewRun(t, "C03"), checkC03, genC03) }
func TestC04(t *testing.T)         { ReplayOrRapid(t, NewRun(t, "C04"), checkC04, genC04) }
func TestC13(t *testing.T)         { ReplayOrRapid(t, NewRun(t, "C13"), checkC13, genC13) }
func TestC14(t *testing.T)         { ReplayOrRapid(t, NewRun(t, "C14"), checkC14, genC14) }
