package harness

import (
	"fmt"
	"strings"
	"testing"

	"github.com/gethiox/HIDI/internal/pkg/midi"
	"github.com/gethiox/HIDI/internal/pkg/midi/device/config"
	"pgregory.net/rapid"
)

// ---- independent note grammar (written from the property text / user README) ----

var c11Index = map[byte]int{'C': 0, 'D': 2, 'E': 4, 'F': 5, 'G': 7, 'A': 9, 'B': 11}

// refNote: (value, valid, ambiguous). Nothing is ambiguous any more: "C-0" is not one of the 128 names (octaves are
// written -2 -1 0 1 ... 8), it is "C0" with an extra character and has to be rejected like "C--1" or "C+0".
func refNote(s string) (int, bool, bool) {
	if len(s) < 2 {
		return 0, false, false
	}
	l := s[0]
	if l >= 'a' && l <= 'z' {
		l -= 32
	}
	idx, ok := c11Index[l]
	if !ok {
		return 0, false, false
	}
	rest := s[1:]
	if strings.HasPrefix(rest, "#") {
		if l == 'E' || l == 'B' {
			return 0, false, false
		}
		idx++
		rest = rest[1:]
	}
	var oct int
	switch {
	case len(rest) == 1 && rest[0] >= '0' && rest[0] <= '8':
		oct = int(rest[0] - '0')
	case rest == "-1":
		oct = -1
	case rest == "-2":
		oct = -2
	default:
		return 0, false, false
	}
	v := 12*(oct+2) + idx
	if v > 127 {
		return 0, false, false
	}
	return v, true, false
}

var c11Pitch = []string{"C", "C#", "D", "D#", "E", "F", "F#", "G", "G#", "A", "A#", "B"}

func refName(n int) (string, int) { return c11Pitch[n%12], n/12 - 2 }

type c11Case struct {
	S string `json:"s"`
}

func checkC11String(s string) (bool, *Violation) {
	want, valid, ambiguous := refNote(s)
	shape := c11Shape(s)
	if ambiguous {
		return false, nil
	}
	return shape, guard("C11", "panic", func() *Violation {
		got, err := config.StringToNote(s)
		if valid {
			if err != nil {
				return violation("C11", "valid-rejected", "", "StringToNote(%q) = error %v, want %d", s, err, want)
			}
			if int(got) != want {
				return violation("C11", "wrong-value", "", "StringToNote(%q) = %d, want %d", s, got, want)
			}
			return nil
		}
		if err == nil {
			return violation("C11", "invalid-accepted", "", "StringToNote(%q) = %d, want an error (not a note name)", s, got)
		}
		return nil
	})
}

// c11Shape: the outer shape letter #? -? digit — the only strings that can be mis-accepted.
func c11Shape(s string) bool {
	i := 0
	if i >= len(s) || !((s[i] >= 'a' && s[i] <= 'z') || (s[i] >= 'A' && s[i] <= 'Z')) {
		return false
	}
	i++
	if i < len(s) && s[i] == '#' {
		i++
	}
	if i < len(s) && s[i] == '-' {
		i++
	}
	if i >= len(s) || s[i] < '0' || s[i] > '9' {
		return false
	}
	return i+1 == len(s)
}

const c11Alphabet = "abcdefghijklmnopqrstuvwxyzABCDEFGHIJKLMNOPQRSTUVWXYZ0123456789#- "

// TestC11Exhaustive enumerates every string of length <= L over the 65-symbol alphabet.
func TestC11Exhaustive(t *testing.T) {
	r := NewRun(t, "C11")
	defer r.Finish()
	L := r.Scale(3, 4)
	r.SetExtra("exhaustive_max_len", L)
	alpha := []byte(c11Alphabet)
	buf := make([]byte, 0, L)
	var n int64
	var rec func(depth int) *Violation
	rec = func(depth int) *Violation {
		s := string(buf)
		nt, v := checkC11String(s)
		if v != nil && !r.Known(v) {
			r.Fail(c11Case{s}, v)
			return v
		}
		n++
		r.Count(nt, s, func() interface{} { return s })
		if depth == L {
			return nil
		}
		for i, c := range alpha {
			if depth == 0 && i%r.Shards != r.Shard {
				continue
			}
			buf = append(buf, c)
			if v := rec(depth + 1); v != nil {
				return v
			}
			buf = buf[:len(buf)-1]
		}
		return nil
	}
	if v := rec(0); v != nil {
		t.Fatalf("VIOLATION %s", v)
	}
	r.ClassN("exhaustive strings", n)
}

// TestC11Numbers: all 128 numbers, both directions, both letter cases, and Event.String.
func TestC11Numbers(t *testing.T) {
	r := NewRun(t, "C11")
	defer r.Finish()
	if r.Shard != 0 {
		return
	}
	seen := map[string]int{}
	for n := 0; n < 128; n++ {
		p, o := refName(n)
		v := guard("C11", "panic", func() *Violation {
			gp, goct := config.NoteToPitch(byte(n)), config.NoteToOctave(byte(n))
			if gp != p || goct != o {
				return violation("C11", "number-to-name", "", "note %d -> %q %d, want %q %d", n, gp, goct, p, o)
			}
			name := fmt.Sprintf("%s%d", gp, goct)
			if prev, dup := seen[name]; dup {
				return violation("C11", "not-injective", "", "notes %d and %d share the name %q", prev, n, name)
			}
			seen[name] = n
			for _, spelled := range []string{name, strings.ToLower(name)} {
				back, err := config.StringToNote(spelled)
				if err != nil || int(back) != n {
					return violation("C11", "round-trip", "", "StringToNote(%q) = %d, %v; want %d", spelled, back, err, n)
				}
			}
			// the same conversion as a configuration file goes through it: a key mapped to the number or the name
			for _, spelled := range []string{fmt.Sprint(n), name, strings.ToLower(name), fmt.Sprintf("%03d", n), fmt.Sprintf("%04d", n)} {
				dd := &Desc{Mode: "off", Exit: []uint16{}, Channel: 1, Velocity: 64, DefMapping: "M", Colors: colorPalette,
					Mappings: []MappingDef{{Name: "M", KeySubs: []string{""}, Keys: []KeyDef{{Code: 30, Note: n, RawValue: strp(spelled)}}}}}
				cfg, err := config.ParseData([]byte(RenderTOML(dd, nil)))
				padded := len(spelled) > 1 && spelled[0] == '0' && spelled[1] >= '0' && spelled[1] <= '9'
				if err != nil {
					if padded {
						continue // whether a number with leading zeros must be accepted is not specified
					}
					return violation("C11", "config-round-trip", "rejected", "a key mapped to %q (note %d) is rejected: %v", spelled, n, err)
				}
				got, ok := cfg.KeyMappings[0].Midi[""][30]
				if !ok || int(got.Note) != n {
					return violation("C11", "config-round-trip", "value", "a key mapped to %q in a configuration file becomes note %d, want %d", spelled, got.Note, n)
				}
			}
			for _, typ := range []uint8{midi.NoteOn, midi.NoteOff} {
				str := midi.NoteEvent(typ, 3, byte(n), 100).String()
				want := fmt.Sprintf("%-2s%2d", p, o)
				if !strings.Contains(str, want) {
					return violation("C11", "event-string", "", "Event.String() for note %d = %q, does not name %q", n, str, want)
				}
			}
			return nil
		})
		Eval(r, t, c11Case{fmt.Sprintf("#%d", n)}, true, v)
	}
}

// TestC11 samples longer strings built by mutating valid names.
func TestC11(t *testing.T) {
	r := NewRun(t, "C11")
	ReplayOrRapid(t, r, func(c c11Case) (bool, *Violation) { return checkC11String(c.S) }, genC11)
}

func genC11(t *rapid.T) c11Case {
	n := rapid.IntRange(0, 127).Draw(t, "n")
	p, o := refName(n)
	s := []byte(fmt.Sprintf("%s%d", p, o))
	if rapid.Bool().Draw(t, "lower") {
		s = []byte(strings.ToLower(string(s)))
	}
	alpha := []byte(c11Alphabet + "\t\n.,_+♯b")
	muts := rapid.IntRange(0, 3).Draw(t, "muts")
	for i := 0; i < muts; i++ {
		switch rapid.IntRange(0, 5).Draw(t, "kind") {
		case 0: // replace a symbol
			if len(s) > 0 {
				s[rapid.IntRange(0, len(s)-1).Draw(t, "pos")] = alpha[rapid.IntRange(0, len(alpha)-1).Draw(t, "sym")]
			}
		case 1: // insert a symbol
			pos := rapid.IntRange(0, len(s)).Draw(t, "pos")
			sym := alpha[rapid.IntRange(0, len(alpha)-1).Draw(t, "sym")]
			s = append(s[:pos], append([]byte{sym}, s[pos:]...)...)
		case 2: // insert '#'
			pos := rapid.IntRange(0, len(s)).Draw(t, "pos")
			s = append(s[:pos], append([]byte{'#'}, s[pos:]...)...)
		case 3: // change octave digit
			if len(s) > 0 {
				s[len(s)-1] = byte('0' + rapid.IntRange(0, 9).Draw(t, "digit"))
			}
		case 4: // other letter
			if len(s) > 0 {
				s[0] = byte('A' + rapid.IntRange(0, 25).Draw(t, "letter"))
			}
		case 5: // delete
			if len(s) > 0 {
				pos := rapid.IntRange(0, len(s)-1).Draw(t, "pos")
				s = append(s[:pos], s[pos+1:]...)
			}
		}
	}
	return c11Case{string(s)}
}
