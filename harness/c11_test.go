package harness

import (
	"fmt"
	"strings"
	"testing"

	"github.com/gethiox/HIDI/internal/pkg/midi"
	"github.com/gethiox/HIDI/internal/pkg/midi/device/config"
	"pgregory.net/rapid"
)

// ---- independent note grammar (written from the property text / user README) ----

var c11Index = map[byte]int{'C': 0, 'D': 2, 'E': 4, 'F': 5, 'G': 7, 'A': 9, 'B': 11}

// refNote: (value, valid, ambiguous). Nothing is ambiguous any more: "C-0" is not one of the 128 names (octaves are
// written -2 -1 0 1 ... 8), it is "C0" with an extra character and has to be rejected like "C--1" or "C+0".
func refNote(s string) (int, bool, bool) {
	if len(s) < 2 {
		return 0, false, false
	}
	l := s[0]
	if l >= 'a' && l <= 'z' {
		l -= 32
	}
	idx, ok := c11Index[l]
	if !ok {
		return 0, false, false
	}
	rest := s[1:]
	if strings.HasPrefix(rest, "#") {
		if l == 'E' || l == 'B' {
			return 0, false, false
		}
		idx++
		rest = rest[1:]
	}
	var oct int
	switch {
	case len(rest) == 1 && rest[0] >= '0' && rest[0] <= '8':
		oct = int(rest[0] - '0')
	case rest == "-1":
		oct = -1
	case rest == "-2":
		oct = -2
	default:
		return 0, false, false
	}
	v := 12*(oct+2) + idx
	if v > 127 {
		return 0, false, false
	}
	return v, true, false
}

var c11Pitch = []string{"C", "C#", "D", "D#", "E", "F", "F#", "G", "G#", "A", "A#", "B"}

func refName(n int) (string, int) { return c11Pitch[n%12], n/12 - 2 }

type c11Case struct {
	S string `json:"s"`
}

func checkC11String(s string) (bool, *Violation) {
	want, valid, ambiguous := refNote(s)
	shape := c11Shape(s)
	if ambiguous {
		return false, nil
	}
	return shape, guard("C11", "panic", func() *Violation {
		got, err := config.StringToNote(s)
		if valid {
			if err != nil {
				return violation("C11", "valid-rejected", "", "StringToNote(%q) = error %v, want %d", s, err, want)
			}
			if int(got) != want {
				return violation("C11", "wrong-value", "", "StringToNote(%q) = %d, want %d", s, got, want)
			}
			return nil
		}
		if err == nil {
			return violation("C11", "invalid-accepted", "", "StringToNote(%q) = %d, want an error (not a note name)", s, got)
		}
		return nil
	})
}

// checkC11Both: the conversion function and the configuration-file path (the latter for every sampled string, and for the
// enumerated ones that are names, numbers, or become one when their blanks are dropped).
func checkC11Both(s string, always bool) (bool, *Violation) {
	nt, v := checkC11String(s)
	if v != nil {
		return nt, v
	}
	_, valid, _ := refNote(s)
	_, plain, _ := c11PlainNumber(s)
	if always || valid || plain || c11NearName(s) {
		classify("also through a configuration file")
		classifyIf(c11NearName(s), "a name or number with blanks around or inside, through a configuration file")
		return nt || c11NearName(s), checkC11Config(s)
	}
	return nt, nil
}

// ---- the same strings as a configuration file goes through them ----
//
// A key of a mapping is given a note as text: a name, or a number 0-127, optionally followed by ",<channel offset>". For a
// string s of the property's domain the configuration `KEY_A = "s"` must be accepted with exactly the reference value when s
// is one of the 128 names or a plain decimal number 0-127, and rejected otherwise ("extra characters" include blanks before,
// inside and after). Not decided here (the statement does not say): numbers with a sign or with leading zeros, and texts
// with a comma other than "<s>,<0..15>".
var c11ConfigTemplate = func() [2]string {
	dd := &Desc{Mode: "off", Exit: []uint16{}, Channel: 1, Velocity: 64, DefMapping: "M", Colors: colorPalette,
		Mappings: []MappingDef{{Name: "M", KeySubs: []string{""}, Keys: []KeyDef{{Code: 30, Note: 1, RawValue: strp("@@NOTE@@")}}}}}
	parts := strings.SplitN(RenderTOML(dd, nil), `"@@NOTE@@"`, 2)
	return [2]string{parts[0], parts[1]}
}()

func c11PlainNumber(s string) (int, bool, bool) { // value, is a plain decimal number, is number-like but unspecified
	if s == "" {
		return 0, false, false
	}
	digits := s
	signed := s[0] == '+' || s[0] == '-'
	if signed {
		digits = s[1:]
	}
	if digits == "" {
		return 0, false, false
	}
	v := 0
	for _, c := range digits {
		if c < '0' || c > '9' {
			return 0, false, false
		}
		if v < 1<<30 {
			v = v*10 + int(c-'0') // (a number of any length: beyond the range it only matters that it is beyond)
		}
	}
	if signed || (len(digits) > 1 && digits[0] == '0') {
		return v, false, true
	}
	return v, true, false
}

func checkC11Config(s string) *Violation {
	text, wantOff := s, 0
	if i := strings.IndexByte(s, ','); i >= 0 {
		off, plain, _ := c11PlainNumber(s[i+1:])
		if !plain || off > 15 || strings.Contains(s[:i], ",") {
			return nil
		}
		text, wantOff = s[:i], off
	}
	want, valid, _ := refNote(text)
	if !valid {
		n, plain, unspecified := c11PlainNumber(text)
		if unspecified {
			return nil
		}
		if plain && n <= 127 {
			want, valid = n, true
		}
	}
	return guard("C11", "panic", func() *Violation {
		cfg, err := config.ParseData([]byte(c11ConfigTemplate[0] + tomlString(s) + c11ConfigTemplate[1]))
		if valid {
			if err != nil {
				return violation("C11", "config-round-trip", "rejected", "a key mapped to %q (note %d) in a configuration file is rejected: %v", s, want, err)
			}
			got, ok := cfg.KeyMappings[0].Midi[""][30]
			if !ok || int(got.Note) != want || int(got.ChannelOffset) != wantOff {
				return violation("C11", "config-round-trip", "value", "a key mapped to %q in a configuration file becomes note %d offset %d, want note %d offset %d", s, got.Note, got.ChannelOffset, want, wantOff)
			}
			return nil
		}
		if err == nil {
			got := cfg.KeyMappings[0].Midi[""][30]
			return violation("C11", "invalid-accepted", "config", "a key mapped to %q in a configuration file is accepted as note %d (offset %d); %q is neither one of the 128 note names nor a number 0-127", s, got.Note, got.ChannelOffset, s)
		}
		return nil
	})
}

// c11NearName: without its blanks the string is a note name or a short number - the strings a lenient tokeniser would accept.
func c11NearName(s string) bool {
	t := strings.Map(func(r rune) rune {
		if r == ' ' || r == '\t' || r == '\n' {
			return -1
		}
		return r
	}, s)
	if t == s {
		return false
	}
	if _, ok, _ := refNote(t); ok {
		return true
	}
	_, plain, _ := c11PlainNumber(t)
	return plain && len(t) <= 3
}

// c11Shape: the outer shape letter #? -? digit — the only strings that can be mis-accepted.
func c11Shape(s string) bool {
	i := 0
	if i >= len(s) || !((s[i] >= 'a' && s[i] <= 'z') || (s[i] >= 'A' && s[i] <= 'Z')) {
		return false
	}
	i++
	if i < len(s) && s[i] == '#' {
		i++
	}
	if i < len(s) && s[i] == '-' {
		i++
	}
	if i >= len(s) || s[i] < '0' || s[i] > '9' {
		return false
	}
	return i+1 == len(s)
}

const c11Alphabet = "abcdefghijklmnopqrstuvwxyzABCDEFGHIJKLMNOPQRSTUVWXYZ0123456789#- "

// TestC11Exhaustive enumerates every string of length <= L over the 65-symbol alphabet.
func TestC11Exhaustive(t *testing.T) {
	r := NewRun(t, "C11")
	defer r.Finish()
	L := r.Scale(3, 4)
	r.SetExtra("exhaustive_max_len", L)
	alpha := []byte(c11Alphabet)
	buf := make([]byte, 0, L)
	var n int64
	var rec func(depth int) *Violation
	rec = func(depth int) *Violation {
		s := string(buf)
		nt, v := checkC11Both(s, false)
		if v != nil && !r.Known(v) {
			r.Fail(c11Case{s}, v)
			return v
		}
		n++
		r.Count(nt, s, func() interface{} { return s })
		if depth == L {
			return nil
		}
		for i, c := range alpha {
			if depth == 0 && i%r.Shards != r.Shard {
				continue
			}
			buf = append(buf, c)
			if v := rec(depth + 1); v != nil {
				return v
			}
			buf = buf[:len(buf)-1]
		}
		return nil
	}
	if v := rec(0); v != nil {
		t.Fatalf("VIOLATION %s", v)
	}
	r.ClassN("exhaustive strings", n)
}

// TestC11Numbers: all 128 numbers, both directions, both letter cases, and Event.String.
func TestC11Numbers(t *testing.T) {
	r := NewRun(t, "C11")
	defer r.Finish()
	if r.Shard != 0 {
		return
	}
	seen := map[string]int{}
	for n := 0; n < 128; n++ {
		p, o := refName(n)
		v := guard("C11", "panic", func() *Violation {
			gp, goct := config.NoteToPitch(byte(n)), config.NoteToOctave(byte(n))
			if gp != p || goct != o {
				return violation("C11", "number-to-name", "", "note %d -> %q %d, want %q %d", n, gp, goct, p, o)
			}
			name := fmt.Sprintf("%s%d", gp, goct)
			if prev, dup := seen[name]; dup {
				return violation("C11", "not-injective", "", "notes %d and %d share the name %q", prev, n, name)
			}
			seen[name] = n
			for _, spelled := range []string{name, strings.ToLower(name)} {
				back, err := config.StringToNote(spelled)
				if err != nil || int(back) != n {
					return violation("C11", "round-trip", "", "StringToNote(%q) = %d, %v; want %d", spelled, back, err, n)
				}
			}
			// the same conversion as a configuration file goes through it: a key mapped to the number or the name
			for _, spelled := range []string{fmt.Sprint(n), name, strings.ToLower(name), fmt.Sprintf("%03d", n), fmt.Sprintf("%04d", n)} {
				dd := &Desc{Mode: "off", Exit: []uint16{}, Channel: 1, Velocity: 64, DefMapping: "M", Colors: colorPalette,
					Mappings: []MappingDef{{Name: "M", KeySubs: []string{""}, Keys: []KeyDef{{Code: 30, Note: n, RawValue: strp(spelled)}}}}}
				cfg, err := config.ParseData([]byte(RenderTOML(dd, nil)))
				padded := len(spelled) > 1 && spelled[0] == '0' && spelled[1] >= '0' && spelled[1] <= '9'
				if err != nil {
					if padded {
						continue // whether a number with leading zeros must be accepted is not specified
					}
					return violation("C11", "config-round-trip", "rejected", "a key mapped to %q (note %d) is rejected: %v", spelled, n, err)
				}
				got, ok := cfg.KeyMappings[0].Midi[""][30]
				if !ok || int(got.Note) != n {
					return violation("C11", "config-round-trip", "value", "a key mapped to %q in a configuration file becomes note %d, want %d", spelled, got.Note, n)
				}
			}
			for _, typ := range []uint8{midi.NoteOn, midi.NoteOff} {
				str := midi.NoteEvent(typ, 3, byte(n), 100).String()
				want := fmt.Sprintf("%-2s%2d", p, o)
				if !strings.Contains(str, want) {
					return violation("C11", "event-string", "", "Event.String() for note %d = %q, does not name %q", n, str, want)
				}
			}
			return nil
		})
		Eval(r, t, c11Case{fmt.Sprintf("#%d", n)}, true, v)
	}
}

// TestC11 samples longer strings built by mutating valid names.
func TestC11(t *testing.T) {
	r := NewRun(t, "C11")
	ReplayOrRapid(t, r, func(c c11Case) (bool, *Violation) { return checkC11Both(c.S, true) }, genC11)
}

func genC11(t *rapid.T) c11Case {
	n := rapid.IntRange(0, 127).Draw(t, "n")
	p, o := refName(n)
	s := []byte(fmt.Sprintf("%s%d", p, o))
	if rapid.Bool().Draw(t, "lower") {
		s = []byte(strings.ToLower(string(s)))
	}
	alpha := []byte(c11Alphabet + "\t\n.,_+♯b")
	muts := rapid.IntRange(0, 3).Draw(t, "muts")
	for i := 0; i < muts; i++ {
		switch rapid.IntRange(0, 8).Draw(t, "kind") {
		case 8: // one or two further names behind it: the neighbouring notes (a run out of a table of names) or any
			for k := rapid.IntRange(1, 2).Draw(t, "moreNames"); k > 0; k-- {
				m := n + 1
				if rapid.IntRange(0, 2).Draw(t, "anyName") == 0 || m > 127 {
					m = rapid.IntRange(0, 127).Draw(t, "otherName")
				}
				p2, o2 := refName(m)
				name2 := fmt.Sprintf("%s%d", p2, o2)
				if rapid.Bool().Draw(t, "lower2") {
					name2 = strings.ToLower(name2)
				}
				sep := rapid.SampledFrom([]string{" ", " ", " ", "  ", ",", "\t", "", "-", "/"}).Draw(t, "sep")
				s = append(s, []byte(sep+name2)...)
				n = m
			}
		case 6: // a blank before, after or inside
			pos := rapid.SampledFrom([]int{0, len(s), len(s), rapid.IntRange(0, len(s)).Draw(t, "blankPos")}).Draw(t, "where")
			sym := rapid.SampledFrom([]byte{' ', ' ', '\t'}).Draw(t, "blank")
			s = append(s[:pos], append([]byte{sym}, s[pos:]...)...)
		case 7: // a channel offset behind it
			s = append(s, []byte(fmt.Sprintf(",%d", rapid.IntRange(0, 17).Draw(t, "off")))...)
		case 0: // replace a symbol
			if len(s) > 0 {
				s[rapid.IntRange(0, len(s)-1).Draw(t, "pos")] = alpha[rapid.IntRange(0, len(alpha)-1).Draw(t, "sym")]
			}
		case 1: // insert a symbol
			pos := rapid.IntRange(0, len(s)).Draw(t, "pos")
			sym := alpha[rapid.IntRange(0, len(alpha)-1).Draw(t, "sym")]
			s = append(s[:pos], append([]byte{sym}, s[pos:]...)...)
		case 2: // insert '#'
			pos := rapid.IntRange(0, len(s)).Draw(t, "pos")
			s = append(s[:pos], append([]byte{'#'}, s[pos:]...)...)
		case 3: // change octave digit
			if len(s) > 0 {
				s[len(s)-1] = byte('0' + rapid.IntRange(0, 9).Draw(t, "digit"))
			}
		case 4: // other letter
			if len(s) > 0 {
				s[0] = byte('A' + rapid.IntRange(0, 25).Draw(t, "letter"))
			}
		case 5: // delete
			if len(s) > 0 {
				pos := rapid.IntRange(0, len(s)-1).Draw(t, "pos")
				s = append(s[:pos], s[pos+1:]...)
			}
		}
	}
	return c11Case{string(s)}
}

// FuzzC11 is the coverage-guided target (thorough tier): arbitrary strings against the reference grammar, through the
// conversion function and through a configuration file. Seeds: all 128 names, some near misses.
func FuzzC11(f *testing.F) {
	r := NewRun(f, "C11")
	curRun = r
	for n := 0; n < 128; n++ {
		p, o := refName(n)
		f.Add(fmt.Sprintf("%s%d", p, o))
	}
	for _, s := range []string{"", "c-0", "h3", "e#1", "c9", "C-2 C#-2", " c3", "c3 ", "60", "060", "-0", "c3,1", "c3,16", "c3 1", "G8", "g#8", "C--1", "c♯3", "ｃ3", "c3\x00"} {
		f.Add(s)
	}
	f.Fuzz(func(t *testing.T, s string) {
		if len(s) > 64 {
			return
		}
		_, v := checkC11Both(s, true)
		if v != nil && !r.Known(v) {
			r.Fail(c11Case{s}, v)
			t.Fatalf("VIOLATION %s", v)
		}
	})
}
