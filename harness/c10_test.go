package harness

import (
	"context"
	"encoding/json"
	"fmt"
	"os"
	"path/filepath"
	"sort"
	"strings"
	"sync"
	"testing"
	"time"

	"github.com/gethiox/HIDI/internal/pkg/input"
	"github.com/gethiox/HIDI/internal/pkg/midi/device/config"
	"pgregory.net/rapid"
)

// ---- semantic view of a configuration: exactly what the property lists ----

type axisView struct {
	Type      string `json:"type"`
	CC        int    `json:"cc"`
	CCNeg     int    `json:"cc_neg"`
	Note      int    `json:"note"`
	NoteNeg   int    `json:"note_neg"`
	Bidi      bool   `json:"bidirectional"`
	Off       int    `json:"off"`
	OffNeg    int    `json:"off_neg"`
	Action    string `json:"action"`
	ActionNeg string `json:"action_neg"`
	Flip      bool   `json:"flip"`
	Center    bool   `json:"center"`
}

type mapView struct {
	Name      string              `json:"name"`
	Keys      map[string][2]int   `json:"keys"`      // "sub|code" -> note, offset
	Axes      map[string]axisView `json:"axes"`      // "sub|code"
	Deadzones map[string]float64  `json:"deadzones"` // "sub|code"
	DefaultDZ map[string]float64  `json:"default_deadzone"`
}

type cfgView struct {
	ID       [4]uint16         `json:"id"`
	Uniq     string            `json:"uniq"`
	Mode     string            `json:"mode"`
	Exit     []uint16          `json:"exit"`
	Defaults [5]int            `json:"defaults"` // octave semitone channel mappingIndex velocity
	Actions  map[string]string `json:"actions"`
	Colors   [7][3]int         `json:"colors"`
	Mappings []mapView         `json:"mappings"`
}

func sk(sub string, code uint16) string { return fmt.Sprintf("%s|%d", sub, code) }

func viewFromDesc(d *Desc) cfgView {
	v := cfgView{ID: d.ID, Uniq: d.Uniq, Mode: d.Mode, Exit: append([]uint16{}, d.Exit...), Actions: map[string]string{}}
	vel := d.Velocity
	if vel == 0 {
		vel = 64
	}
	idx := -1
	for i, m := range d.Mappings {
		if m.Name == d.DefMapping {
			idx = i
		}
	}
	v.Defaults = [5]int{d.Octave, d.Semitone, d.Channel, idx, vel}
	for _, a := range d.Actions {
		v.Actions[fmt.Sprint(a.Code)] = a.Action
	}
	for i, c := range d.Colors {
		v.Colors[i] = [3]int{(c >> 16) & 0xff, (c >> 8) & 0xff, c & 0xff}
	}
	for _, m := range d.Mappings {
		mv := mapView{Name: m.Name, Keys: map[string][2]int{}, Axes: map[string]axisView{}, Deadzones: map[string]float64{}, DefaultDZ: map[string]float64{}}
		for _, k := range m.Keys {
			mv.Keys[sk(k.Sub, k.Code)] = [2]int{k.Note, k.Off}
		}
		for _, s := range m.AnalogSubs {
			if s.Default != nil {
				mv.DefaultDZ[s.Sub] = *s.Default
			} else {
				mv.DefaultDZ[s.Sub] = 0
			}
		}
		for _, a := range m.Axes {
			av := axisView{Type: a.Type, Flip: a.Flip != nil && *a.Flip, Center: a.Center != nil && *a.Center}
			switch a.Type {
			case "cc":
				av.CC = *a.CC
				if a.CCNeg != nil {
					av.CCNeg, av.Bidi = *a.CCNeg, true
				}
				if a.Off != nil {
					av.Off = *a.Off
				}
				if a.OffNeg != nil {
					av.OffNeg = *a.OffNeg
				}
			case "pitch_bend":
				if a.Off != nil {
					av.Off = *a.Off
				}
			case "key":
				av.Note = *a.Note
				if a.NoteNeg != nil {
					av.NoteNeg, av.Bidi = *a.NoteNeg, true
				}
				// the emulated keys sound on channel + offset like every other mapping of the axis
				if a.Off != nil {
					av.Off = *a.Off
				}
				if a.OffNeg != nil {
					av.OffNeg = *a.OffNeg
				}
			case "action":
				av.Action = *a.Action
				if a.ActionNeg != nil {
					av.ActionNeg = *a.ActionNeg
				}
			}
			mv.Axes[sk(a.Sub, a.Code)] = av
			if a.Deadzone != nil {
				mv.Deadzones[sk(a.Sub, a.Code)] = *a.Deadzone
			}
		}
		v.Mappings = append(v.Mappings, mv)
	}
	return v
}

func viewFromConfig(c *config.Config) cfgView {
	v := cfgView{ID: [4]uint16{c.ID.Bus, c.ID.Vendor, c.ID.Product, c.ID.Version}, Uniq: c.Uniq, Mode: string(c.CollisionMode),
		Exit: []uint16{}, Actions: map[string]string{}}
	for _, e := range c.ExitSequence {
		v.Exit = append(v.Exit, uint16(e))
	}
	v.Defaults = [5]int{c.Defaults.Octave, c.Defaults.Semitone, c.Defaults.Channel, c.Defaults.Mapping, c.Defaults.Velocity}
	for code, a := range c.ActionMapping {
		v.Actions[fmt.Sprint(uint16(code))] = string(a)
	}
	cols := c.OpenRGB.Colors
	for i, col := range []struct{ R, G, B byte }{
		{cols.White.Red, cols.White.Green, cols.White.Blue}, {cols.Black.Red, cols.Black.Green, cols.Black.Blue},
		{cols.C.Red, cols.C.Green, cols.C.Blue}, {cols.Unavailable.Red, cols.Unavailable.Green, cols.Unavailable.Blue},
		{cols.Other.Red, cols.Other.Green, cols.Other.Blue}, {cols.Active.Red, cols.Active.Green, cols.Active.Blue},
		{cols.ActiveExternal.Red, cols.ActiveExternal.Green, cols.ActiveExternal.Blue}} {
		v.Colors[i] = [3]int{int(col.R), int(col.G), int(col.B)}
	}
	for _, m := range c.KeyMappings {
		mv := mapView{Name: m.Name, Keys: map[string][2]int{}, Axes: map[string]axisView{}, Deadzones: map[string]float64{}, DefaultDZ: map[string]float64{}}
		for sub, keys := range m.Midi {
			for code, k := range keys {
				mv.Keys[sk(sub, uint16(code))] = [2]int{int(k.Note), int(k.ChannelOffset)}
			}
		}
		for sub, axes := range m.Analog {
			for code, a := range axes {
				av := axisView{Type: string(a.MappingType), Flip: a.FlipAxis, Center: a.DeadzoneAtCenter}
				switch a.MappingType {
				case config.AnalogCC:
					av.CC, av.Off, av.OffNeg = int(a.CC), int(a.ChannelOffset), int(a.ChannelOffsetNeg)
					if a.Bidirectional {
						av.CCNeg, av.Bidi = int(a.CCNeg), true
					}
				case config.AnalogPitchBend:
					av.Off = int(a.ChannelOffset)
				case config.AnalogKeySim:
					av.Off, av.OffNeg = int(a.ChannelOffset), int(a.ChannelOffsetNeg)
					av.Note = int(a.Note)
					if a.Bidirectional {
						av.NoteNeg, av.Bidi = int(a.NoteNeg), true
					}
				case config.AnalogActionSim:
					av.Action, av.ActionNeg = string(a.Action), string(a.ActionNeg)
				}
				mv.Axes[sk(sub, uint16(code))] = av
			}
		}
		for sub, dzs := range m.Deadzones {
			for code, dz := range dzs {
				mv.Deadzones[sk(sub, uint16(code))] = dz
			}
		}
		for sub, dz := range m.DefaultDeadzone {
			mv.DefaultDZ[sub] = dz
		}
		v.Mappings = append(v.Mappings, mv)
	}
	return v
}

// firstDiff renders both views as JSON lines and returns the first differing pair.
func firstDiff(want, got cfgView) string {
	a, _ := json.MarshalIndent(want, "", " ")
	b, _ := json.MarshalIndent(got, "", " ")
	if string(a) == string(b) {
		return ""
	}
	la, lb := strings.Split(string(a), "\n"), strings.Split(string(b), "\n")
	ctx := ""
	for i := 0; i < len(la) && i < len(lb); i++ {
		if la[i] != lb[i] {
			return fmt.Sprintf("near %q: the file says %s, the configuration has %s", ctx, strings.TrimSpace(la[i]), strings.TrimSpace(lb[i]))
		}
		if strings.HasSuffix(la[i], "{") || strings.HasSuffix(la[i], "[") {
			ctx = strings.TrimSpace(la[i])
		}
	}
	return fmt.Sprintf("views differ in length: %d vs %d lines", len(la), len(lb))
}

func midiRangeProblem(c *config.Config) string {
	if c.Defaults.Channel < 1 || c.Defaults.Channel > 16 {
		return fmt.Sprintf("default channel %d", c.Defaults.Channel)
	}
	if c.Defaults.Velocity < 1 || c.Defaults.Velocity > 127 {
		return fmt.Sprintf("velocity %d", c.Defaults.Velocity)
	}
	if c.Defaults.Mapping < 0 || c.Defaults.Mapping >= len(c.KeyMappings) {
		return fmt.Sprintf("default mapping index %d", c.Defaults.Mapping)
	}
	for _, m := range c.KeyMappings {
		for _, keys := range m.Midi {
			for _, k := range keys {
				if k.Note > 127 || k.ChannelOffset > 15 {
					return fmt.Sprintf("key %+v", k)
				}
			}
		}
		for _, axes := range m.Analog {
			for _, a := range axes {
				if a.CC > 127 || a.CCNeg > 127 || a.Note > 127 || a.NoteNeg > 127 || a.ChannelOffset > 15 || a.ChannelOffsetNeg > 15 {
					return fmt.Sprintf("axis %+v", a)
				}
			}
		}
	}
	return ""
}

// ---- the case ----

type C10Case struct {
	D        *Desc  `json:"desc"`
	Spell    []int  `json:"spell"`             // recorded spelling choices (replayable)
	Invalid  string `json:"invalid,omitempty"` // which single-field invalidation was applied ("" = valid file)
	TextHint string `json:"-"`
}

type recSpelling struct {
	rec []int
	pos int
	t   *rapid.T
}

func (r *recSpelling) spelling() *Spelling {
	return &Spelling{Pick: func(label string, n int) int {
		if r.t != nil {
			v := rapid.IntRange(0, n-1).Draw(r.t, "sp:"+label)
			r.rec = append(r.rec, v)
			return v
		}
		if r.pos < len(r.rec) {
			v := r.rec[r.pos] % n
			r.pos++
			return v
		}
		return 0
	}}
}

func checkC10(c C10Case) (bool, *Violation) {
	rs := &recSpelling{rec: c.Spell}
	spell := rs.spelling()
	text := RenderTOML(c.D, spell)
	var cfg config.Config
	var perr error
	if v := guard("C10", "parser-panic", func() *Violation {
		cfg, perr = config.ParseData([]byte(text))
		return nil
	}); v != nil {
		v.Message += "\n" + text
		return true, v
	}
	if c.Invalid != "" {
		classify("invalidation: " + strings.SplitN(c.Invalid, ":", 2)[0])
		if perr == nil {
			kind := strings.SplitN(c.Invalid, ":", 2)[0]
			return true, violation("C10", "invalid-accepted", kind, "a file with %s was accepted without an error\n%s", c.Invalid, text)
		}
		return true, nil
	}
	if perr != nil && spell.Padded {
		classify("note number with leading zeros rejected (not asserted)")
		return false, nil
	}
	classifyIf(spell.Padded, "note number with leading zeros accepted")
	if perr != nil {
		return true, violation("C10", "valid-rejected", "", "a valid configuration was rejected: %v\n%s", perr, text)
	}
	want, got := viewFromDesc(c.D), viewFromConfig(&cfg)
	if diff := firstDiff(want, got); diff != "" {
		return true, violation("C10", "not-faithful", diffKind(diff), "the accepted configuration does not say what the file says; %s\n%s", diff, text)
	}
	if p := midiRangeProblem(&cfg); p != "" {
		return true, violation("C10", "value-out-of-midi-range", "", "accepted configuration holds %s\n%s", p, text)
	}
	nontrivial := false
	for _, m := range c.D.Mappings {
		for _, a := range m.Axes {
			if a.CCNeg != nil || a.NoteNeg != nil || a.Off != nil || a.OffNeg != nil || a.Flip != nil || a.Center != nil || a.Deadzone != nil || a.ActionNeg != nil {
				nontrivial = true
			}
			classify("axis type " + a.Type)
		}
	}
	return nontrivial, nil
}

func diffKind(diff string) string {
	for _, k := range []string{"note_neg", "action_neg", "off_neg", "cc_neg", "off", "note", "cc", "action", "flip", "center", "deadzone", "defaults", "exit", "colors", "keys", "mode", "uniq", "id"} {
		if strings.Contains(diff, `"`+k) {
			return k
		}
	}
	return "other"
}

// ---- generators ----

var subPool = []string{"", "Mouse", "Consumer Control", "System Control", "Keyboard", "Touchpad", "Motion Sensors", "mouse", "Mouse ", "Клавиатура", "a.b", "x\"y"}

// (a mapping is called whatever its author likes: names that differ in letter case or by a trailing blank only, names that
// look like TOML, a very long one)
var mapNamePool = []string{"Piano", "Chromatic", "Control", "Debug", "Drums 1", "Ünï", "a.b", "x", "piano", "Piano ", "0", "true", "say \"hi\"", "🎹 keys",
	"[[mapping]]", "# no comment", "tab\there", strings.Repeat("long name ", 30), "Default", "default", " "}
var allActions = []string{"mapping_up", "mapping_down", "mapping", "octave_up", "octave_down", "semitone_up", "semitone_down",
	"channel_up", "channel_down", "channel", "multinote", "panic", "cc_learning", "exit"}

func drawKeyCodes(t *rapid.T, n int, label string) []uint16 {
	perm := rapid.Permutation(indices(len(allKeyCodes))).Draw(t, label)
	out := make([]uint16, n)
	for i := range out {
		out[i] = allKeyCodes[perm[i]]
	}
	return out
}

func genFullDesc(t *rapid.T) *Desc {
	d := &Desc{Exit: []uint16{}}
	d.Mode = rapid.SampledFrom(allModes).Draw(t, "mode")
	for i := range d.ID {
		d.ID[i] = uint16(rapid.OneOf(rapid.IntRange(0, 0xffff), rapid.SampledFrom([]int{0, 1, 3, 0xffff})).Draw(t, "id"))
	}
	d.Uniq = rapid.SampledFrom([]string{"", "", "00:11:22", "abc def", "ü"}).Draw(t, "uniq")
	d.Octave = rapid.IntRange(-10, 10).Draw(t, "octave")
	d.Semitone = rapid.IntRange(-50, 50).Draw(t, "semitone")
	d.Channel = rapid.IntRange(1, 16).Draw(t, "channel")
	d.Velocity = rapid.OneOf(rapid.IntRange(0, 127), rapid.SampledFrom([]int{0, 1, 127})).Draw(t, "velocity")
	for i := range d.Colors {
		d.Colors[i] = rapid.OneOf(rapid.IntRange(0, 0xffffff), rapid.SampledFrom([]int{0, 0xffffff, 0x010203})).Draw(t, "color")
	}
	nAct := rapid.IntRange(0, 8).Draw(t, "nActions")
	nExit := rapid.IntRange(0, 3).Draw(t, "nExit")
	codes := drawKeyCodes(t, nAct+nExit, "actionCodes")
	for i := 0; i < nAct; i++ {
		d.Actions = append(d.Actions, ActionDef{Code: codes[i], Action: rapid.SampledFrom(allActions).Draw(t, "action")})
	}
	for i := 0; i < nExit; i++ {
		d.Exit = append(d.Exit, codes[nAct+i])
	}
	nMap := rapid.IntRange(1, 4).Draw(t, "nMappings")
	names := rapid.Permutation(indices(len(mapNamePool))).Draw(t, "mapNames")
	for mi := 0; mi < nMap; mi++ {
		m := MappingDef{Name: mapNamePool[names[mi]]}
		subs := rapid.Permutation(indices(len(subPool))).Draw(t, "subOrder")
		nKS := rapid.IntRange(0, 3).Draw(t, "nKeySubs")
		for si := 0; si < nKS; si++ {
			sub := subPool[subs[si]]
			m.KeySubs = append(m.KeySubs, sub)
			nk := rapid.IntRange(0, 6).Draw(t, "nKeys")
			for _, code := range drawKeyCodes(t, nk, "keyCodes") {
				m.Keys = append(m.Keys, KeyDef{Sub: sub, Code: code,
					Note: rapid.OneOf(rapid.IntRange(0, 127), rapid.SampledFrom([]int{0, 127, 60})).Draw(t, "note"),
					Off:  rapid.SampledFrom([]int{0, 0, 0, 1, 7, 15}).Draw(t, "off")})
			}
		}
		subs2 := rapid.Permutation(indices(len(subPool))).Draw(t, "asubOrder")
		nAS := rapid.IntRange(0, 3).Draw(t, "nAnalogSubs")
		for si := 0; si < nAS; si++ {
			sub := subPool[subs2[si]]
			as := AnalogSub{Sub: sub}
			if rapid.Bool().Draw(t, "hasDefaultDZ") {
				as.Default = floatp(rapid.SampledFrom([]float64{0, 0.1, 0.25, 0.003, 0.5, 1e-05}).Draw(t, "defaultDZ"))
			}
			m.AnalogSubs = append(m.AnalogSubs, as)
			na := rapid.IntRange(0, 5).Draw(t, "nAxes")
			perm := rapid.Permutation(indices(len(allAbsCodes))).Draw(t, "axisCodes")
			for ai := 0; ai < na; ai++ {
				m.Axes = append(m.Axes, genAxisDef(t, sub, allAbsCodes[perm[ai]]))
			}
		}
		d.Mappings = append(d.Mappings, m)
	}
	d.DefMapping = d.Mappings[rapid.IntRange(0, nMap-1).Draw(t, "defMapping")].Name
	return d
}

func optBool(t *rapid.T, label string) *bool {
	switch rapid.IntRange(0, 2).Draw(t, label) {
	case 0:
		return nil
	case 1:
		return boolp(false)
	}
	return boolp(true)
}

func optOff(t *rapid.T, label string) *int {
	if rapid.Bool().Draw(t, label+"Present") {
		return intp(rapid.SampledFrom([]int{0, 1, 2, 9, 15}).Draw(t, label))
	}
	return nil
}

func genAxisDef(t *rapid.T, sub string, code uint16) AxisDef {
	a := AxisDef{Sub: sub, Code: code, Min: -128, Max: 127}
	a.Flip = optBool(t, "flip")
	a.Center = optBool(t, "center")
	if rapid.Bool().Draw(t, "hasDZ") {
		a.Deadzone = floatp(rapid.SampledFrom([]float64{0, 0.05, 0.1, 0.33, 0.9, 1.5e-3}).Draw(t, "dz"))
	}
	switch rapid.SampledFrom([]string{"cc", "pitch_bend", "key", "action"}).Draw(t, "type") {
	case "cc":
		a.Type = "cc"
		a.CC = intp(rapid.OneOf(rapid.IntRange(0, 119), rapid.SampledFrom([]int{0, 119})).Draw(t, "cc"))
		if rapid.Bool().Draw(t, "bidi") {
			a.CCNeg = intp(rapid.IntRange(0, 119).Draw(t, "ccNeg"))
		}
		a.Off = optOff(t, "off")
		a.OffNeg = optOff(t, "offNeg")
	case "pitch_bend":
		a.Type = "pitch_bend"
		a.Off = optOff(t, "off")
	case "key":
		a.Type = "key"
		a.Note = intp(rapid.IntRange(0, 127).Draw(t, "note"))
		if rapid.Bool().Draw(t, "bidi") {
			a.NoteNeg = intp(rapid.IntRange(0, 127).Draw(t, "noteNeg"))
		}
		a.Off = optOff(t, "off")
		a.OffNeg = optOff(t, "offNeg")
	case "action":
		a.Type = "action"
		a.Action = strp(rapid.SampledFrom(allActions).Draw(t, "action"))
		if rapid.IntRange(0, 3).Draw(t, "hasActionNeg") > 0 {
			a.ActionNeg = strp(rapid.SampledFrom(allActions).Draw(t, "actionNeg"))
		}
	}
	return a
}

func genC10(t *rapid.T) C10Case {
	d := genFullDesc(t)
	c := C10Case{D: d}
	if rapid.IntRange(0, 2).Draw(t, "invalidate") == 0 {
		c.Invalid = invalidate(t, d)
	}
	rs := &recSpelling{t: t}
	_ = RenderTOML(d, rs.spelling())
	c.Spell = rs.rec
	return c
}

// ensure helpers: make the description contain the thing an invalidation needs.
func ensureKey(t *rapid.T, d *Desc) *KeyDef {
	for mi := range d.Mappings {
		if len(d.Mappings[mi].Keys) > 0 {
			ks := d.Mappings[mi].Keys
			return &ks[rapid.IntRange(0, len(ks)-1).Draw(t, "whichKey")]
		}
	}
	m := &d.Mappings[0]
	m.KeySubs = append(m.KeySubs, "Gadget")
	m.Keys = append(m.Keys, KeyDef{Sub: "Gadget", Code: 30, Note: 60})
	return &m.Keys[len(m.Keys)-1]
}

func ensureAxis(t *rapid.T, d *Desc, typ string) *AxisDef {
	var cands []*AxisDef
	for mi := range d.Mappings {
		for ai := range d.Mappings[mi].Axes {
			if d.Mappings[mi].Axes[ai].Type == typ {
				cands = append(cands, &d.Mappings[mi].Axes[ai])
			}
		}
	}
	if len(cands) > 0 {
		return cands[rapid.IntRange(0, len(cands)-1).Draw(t, "whichAxis")]
	}
	m := &d.Mappings[rapid.IntRange(0, len(d.Mappings)-1).Draw(t, "axisMapping")]
	m.AnalogSubs = append(m.AnalogSubs, AnalogSub{Sub: "Gadget", Default: floatp(0.1)})
	a := AxisDef{Sub: "Gadget", Code: 0, Type: typ, Min: -128, Max: 127}
	switch typ {
	case "cc":
		a.CC, a.CCNeg = intp(1), intp(2)
	case "key":
		a.Note, a.NoteNeg = intp(60), intp(62)
	case "action":
		a.Action, a.ActionNeg = strp("octave_up"), strp("octave_down")
	}
	m.Axes = append(m.Axes, a)
	return &m.Axes[len(m.Axes)-1]
}

// invalidate applies exactly one of the invalidations named by the property and returns its description.
func invalidate(t *rapid.T, d *Desc) string {
	if d.Inject == nil {
		d.Inject = map[string]string{}
	}
	outNote := func() int {
		return rapid.SampledFrom([]int{128, 129, 200, 255, 256, 1000, -1, -128}).Draw(t, "badNote")
	}
	outOff := func() int { return rapid.SampledFrom([]int{16, 17, 255, 256, 300, -1}).Draw(t, "badOff") }
	kinds := []string{"unknown-field", "unknown-key-name", "unknown-axis-name", "bad-note-name", "unknown-action", "unknown-axis-action",
		"unknown-axis-action-negative", "unknown-type", "unknown-collision-mode", "key-note-out-of-range", "axis-note-out-of-range",
		"axis-note-negative-out-of-range", "cc-out-of-range", "cc-negative-out-of-range", "key-offset-out-of-range",
		"axis-offset-out-of-range", "axis-offset-negative-out-of-range", "velocity-out-of-range", "default-channel-out-of-range",
		"default-mapping-missing", "unknown-exit-key", "unknown-deadzone-axis", "field-name-in-other-case"}
	kind := rapid.SampledFrom(kinds).Draw(t, "invalidation")
	switch kind {
	case "field-name-in-other-case":
		// TOML keys are case-sensitive: VELOCITY is not the field velocity, it is an unknown field (and must not silently
		// override the value the file states under the proper name)
		pick := rapid.SampledFrom([][2]string{{"defaults", "  VELOCITY = 100"}, {"defaults", "  Octave = 3"}, {"defaults", "  Channel = 5"},
			{"top", "Collision_Mode = \"off\""}, {"identifier", "  BUS = 3"}, {"open_rgb", "  White = 1"}, {"mapping:0", "  NAME = \"other\""}}).Draw(t, "caseVariant")
		if rapid.IntRange(0, 2).Draw(t, "caseVariantInAxis") == 0 {
			// ... also inside the table of one axis
			a := ensureAxis(t, d, rapid.SampledFrom([]string{"cc", "key", "pitch_bend", "action"}).Draw(t, "atype"))
			a.Extra = rapid.SampledFrom([]string{"Flip_Axis = true", "NOTE = 61", "Cc = 7", "Channel_Offset = 3", "TYPE = \"cc\"", "Deadzone_At_Center = true", "Action_Negative = \"panic\""}).Draw(t, "axisCaseVariant")
			return kind + ": axis field " + a.Extra
		}
		if d.Inject == nil {
			d.Inject = map[string]string{}
		}
		d.Inject[pick[0]] = pick[1]
		return kind + ": " + strings.TrimSpace(pick[1])
	case "unknown-field":
		anchors := []string{"top", "identifier", "defaults", "open_rgb", "mapping:0"}
		m0 := &d.Mappings[0]
		if len(m0.KeySubs) > 0 {
			anchors = append(anchors, "keys:0:"+m0.KeySubs[0])
		}
		if len(m0.AnalogSubs) > 0 {
			anchors = append(anchors, "analog:0:"+m0.AnalogSubs[0].Sub)
		}
		anchors = append(anchors, "axis")
		an := rapid.SampledFrom(anchors).Draw(t, "anchor")
		field := rapid.SampledFrom([]string{"bogus = 1", "colour = \"red\"", "notes = [1, 2]", "deadzone = 0.5", "octaves = 1"}).Draw(t, "field")
		if an == "axis" {
			a := ensureAxis(t, d, "cc")
			a.Extra = field
		} else {
			indent := "  "
			d.Inject[an] = indent + field
		}
		return kind + ": " + field + " at " + an
	case "unknown-key-name":
		name := rapid.SampledFrom([]string{"KEY_NOPE", "key_a", "A", "KEY_", "BTN_QUUX", "ABS_X", "xZZ", "x12345", `""`, `" "`, "x", `"KEY_A "`}).Draw(t, "name")
		if rapid.Bool().Draw(t, "inActions") {
			d.Actions = append(d.Actions, ActionDef{Code: 1, Action: "panic", RawName: name})
		} else {
			k := ensureKey(t, d)
			k.RawName = name
		}
		return kind + ": " + name
	case "unknown-exit-key":
		name := rapid.SampledFrom([]string{"KEY_NOPE", "esc", "xGG", "", " ", "x"}).Draw(t, "name")
		d.ExitRaw = []string{"KEY_LEFTALT", name}
		return kind + ": " + name
	case "unknown-axis-name":
		name := rapid.SampledFrom([]string{"ABS_NOPE", "abs_x", "X", "KEY_A", "xZZ", `""`, "x"}).Draw(t, "name")
		a := ensureAxis(t, d, rapid.SampledFrom([]string{"cc", "key", "action"}).Draw(t, "atype"))
		a.RawName = name
		if a.Deadzone != nil {
			a.RawDZName = "ABS_X"
		}
		return kind + ": " + name
	case "unknown-deadzone-axis":
		a := ensureAxis(t, d, "cc")
		a.Deadzone = floatp(0.1)
		a.RawDZName = rapid.SampledFrom([]string{"ABS_NOPE", "abs_y", "xQQ", `""`}).Draw(t, "name")
		return kind + ": " + a.RawDZName
	case "bad-note-name":
		k := ensureKey(t, d)
		k.RawValue = strp(rapid.SampledFrom([]string{"H2", "C9", "Cb3", "", "c#", "E#1", "B#0", "c-3", "C 4", "C4 ", "do", "G#8", "c0,1,2", "c0,x", "c0,",
			"0x10", "0b11", "0o17", "1_0", "0_7", "1e1", "12.0", "0x3c,1", "+-5"}).Draw(t, "noteText"))
		return kind + ": " + fmt.Sprintf("%q", *k.RawValue)
	case "unknown-action":
		act := rapid.SampledFrom([]string{"octave_upp", "Panic", "", "transpose", "octave-up"}).Draw(t, "badAction")
		d.Actions = append(d.Actions, ActionDef{Code: 0x2ff, Action: act})
		return kind + ": " + fmt.Sprintf("%q", act)
	case "unknown-axis-action":
		a := ensureAxis(t, d, "action")
		a.Action = strp(rapid.SampledFrom([]string{"octave_upp", "Panic", "", "jump"}).Draw(t, "badAction"))
		return kind + ": " + fmt.Sprintf("%q", *a.Action)
	case "unknown-axis-action-negative":
		a := ensureAxis(t, d, "action")
		a.ActionNeg = strp(rapid.SampledFrom([]string{"octave_downn", "PANIC", "", "jump"}).Draw(t, "badAction"))
		return kind + ": " + fmt.Sprintf("%q", *a.ActionNeg)
	case "unknown-type":
		a := ensureAxis(t, d, rapid.SampledFrom([]string{"cc", "key"}).Draw(t, "atype"))
		a.Type = rapid.SampledFrom([]string{"slider", "CC", "", "pitchbend", "note"}).Draw(t, "badType")
		return kind + ": " + fmt.Sprintf("%q", a.Type)
	case "unknown-collision-mode":
		d.Mode = rapid.SampledFrom([]string{"sometimes", "Interrupt", "no-repeat", "on"}).Draw(t, "badMode")
		return kind + ": " + d.Mode
	case "key-note-out-of-range":
		k := ensureKey(t, d)
		k.Note = outNote()
		k.RawValue = strp(fmt.Sprintf("%d,%d", k.Note, k.Off))
		return kind + ": " + fmt.Sprint(k.Note)
	case "axis-note-out-of-range":
		a := ensureAxis(t, d, "key")
		a.Note = intp(outNote())
		return kind + ": " + fmt.Sprint(*a.Note)
	case "axis-note-negative-out-of-range":
		a := ensureAxis(t, d, "key")
		a.NoteNeg = intp(outNote())
		return kind + ": " + fmt.Sprint(*a.NoteNeg)
	case "cc-out-of-range":
		a := ensureAxis(t, d, "cc")
		a.CC = intp(outNote())
		return kind + ": " + fmt.Sprint(*a.CC)
	case "cc-negative-out-of-range":
		a := ensureAxis(t, d, "cc")
		a.CCNeg = intp(outNote())
		return kind + ": " + fmt.Sprint(*a.CCNeg)
	case "key-offset-out-of-range":
		k := ensureKey(t, d)
		k.Off = outOff()
		return kind + ": " + fmt.Sprint(k.Off)
	case "axis-offset-out-of-range":
		a := ensureAxis(t, d, rapid.SampledFrom([]string{"cc", "pitch_bend", "key", "action"}).Draw(t, "atype"))
		a.Off = intp(outOff())
		return kind + ": " + fmt.Sprint(*a.Off) + " on a " + a.Type + " axis"
	case "axis-offset-negative-out-of-range":
		a := ensureAxis(t, d, rapid.SampledFrom([]string{"cc", "cc", "key", "action", "pitch_bend"}).Draw(t, "atype"))
		if a.Type == "cc" && a.CCNeg == nil {
			a.CCNeg = intp(3)
		}
		a.OffNeg = intp(outOff())
		return kind + ": " + fmt.Sprint(*a.OffNeg) + " on a " + a.Type + " axis"
	case "velocity-out-of-range":
		d.Velocity = rapid.SampledFrom([]int{128, 129, 255, 256, 1000, -1}).Draw(t, "badVelocity")
		return kind + ": " + fmt.Sprint(d.Velocity)
	case "default-channel-out-of-range":
		d.Channel = rapid.SampledFrom([]int{0, 17, 18, 255, 256, 257, -1, -15}).Draw(t, "badChannel")
		return kind + ": " + fmt.Sprint(d.Channel)
	case "default-mapping-missing":
		d.DefMapping = rapid.SampledFrom([]string{"Nope", "", "piano", "Piano "}).Draw(t, "badMapping")
		for _, m := range d.Mappings {
			if m.Name == d.DefMapping {
				d.DefMapping += "?"
			}
		}
		return kind + ": " + fmt.Sprintf("%q", d.DefMapping)
	}
	return ""
}

func TestC10(t *testing.T) { ReplayOrRapid(t, NewRun(t, "C10"), checkC10, genC10) }

var _ = sort.Strings

// ---- C10 through files: what the loader returns for a file is what the file says NOW ----
//
// C10FileCase: the valid configuration of the case is written to one fixed path of a per-process hidi-config tree and
// loaded with config.LoadDeviceConfigs; then the file is saved again in place with a second version of exactly the same
// length (a mapping name in other letter case, or - Break - a default channel that makes it invalid) and everything is
// loaded again, as after a change notification. Oracle: each load gives what config.ParseData gives for the text that
// is in the file at that moment (differential), an invalid version is not served.
type C10FileCase struct {
	C     C10Case `json:"c"`
	Break bool    `json:"break"`
	// Mtime: 1 - the second version keeps the modification time of the first (cp -p, two saves within one tick);
	// 2 - it is dated a day before the first (a backup put back)
	Mtime int `json:"mtime,omitempty"`
	// PadKB / PadAt: a block of comment lines of that size is put at the start (0), in front of the last mapping (1) or at the
	// end (2) of both versions: configurations are not small by nature (many mappings, hundreds of keys, generous comments)
	PadKB int `json:"pad_kb,omitempty"`
	PadAt int `json:"pad_at,omitempty"`
}

func c10Pad(text string, kb, at int) string {
	if kb <= 0 {
		return text
	}
	line := "# " + strings.Repeat("- note to self ", 8) + "\n"
	pad := strings.Repeat(line, kb*1024/len(line)+1)
	switch at {
	case 1:
		if i := strings.LastIndex(text, "\n[[mapping]]"); i >= 0 {
			return text[:i+1] + pad + text[i+1:]
		}
		return pad + text
	case 2:
		return text + "\n" + pad
	}
	return pad + text
}

var c10FilesRoot string

func c10SecondVersion(d *Desc, brk bool) *Desc {
	raw, _ := json.Marshal(d)
	var d2 Desc
	_ = json.Unmarshal(raw, &d2)
	if brk && d2.Channel >= 1 && d2.Channel <= 9 {
		d2.Channel = 0 // same length, invalid
		return &d2
	}
	old := d2.Mappings[0].Name
	flipped := strings.ToUpper(old)
	if flipped == old {
		flipped = strings.ToLower(old)
	}
	if flipped == old { // no letters: nothing to change without changing the length
		return nil
	}
	for _, m := range d2.Mappings {
		if m.Name == flipped {
			return nil
		}
	}
	d2.Mappings[0].Name = flipped
	if d2.DefMapping == old {
		d2.DefMapping = flipped
	}
	return &d2
}

func checkC10File(fc C10FileCase) (bool, *Violation) {
	c := fc.C
	if c.D == nil || len(c.D.Mappings) == 0 || c.Invalid != "" { // (corpus cases of the other C10 part land here with an empty case)
		return false, nil
	}
	d2 := c10SecondVersion(c.D, fc.Break)
	if d2 == nil {
		return false, nil
	}
	texts := []string{RenderTOML(c.D, (&recSpelling{rec: c.Spell}).spelling()), RenderTOML(d2, (&recSpelling{rec: c.Spell}).spelling())}
	if len(texts[0]) != len(texts[1]) {
		return false, nil // the second version must not change the length
	}
	for i := range texts {
		texts[i] = c10Pad(texts[i], fc.PadKB, fc.PadAt)
	}
	classifyIf(fc.PadKB > 0, "file larger than 64 KiB")
	if c10FilesRoot == "" {
		root, err := os.MkdirTemp(".", "c10files-")
		if err != nil {
			return false, violation("C10", "harness", "", "mkdtemp: %v", err)
		}
		c10FilesRoot, _ = filepath.Abs(root)
		for _, dir := range c12Dirs {
			if err := os.MkdirAll(filepath.Join(c10FilesRoot, dir), 0o755); err != nil {
				return false, violation("C10", "harness", "", "mkdir: %v", err)
			}
		}
	}
	path := filepath.Join(c10FilesRoot, c12Dirs[0], "device.toml")
	id := input.InputID{Bus: c.D.ID[0], Vendor: c.D.ID[1], Product: c.D.ID[2], Version: c.D.ID[3]}
	var v *Violation
	herr := inDir(c10FilesRoot, func() {
		var firstTime time.Time
		for gen, text := range texts {
			if err := os.WriteFile(path, []byte(text), 0o644); err != nil {
				v = violation("C10", "harness", "", "write: %v", err)
				return
			}
			if st, err := os.Stat(path); err == nil {
				if gen == 0 {
					firstTime = st.ModTime()
				} else if fc.Mtime == 1 {
					_ = os.Chtimes(path, firstTime, firstTime)
				} else if fc.Mtime == 2 {
					_ = os.Chtimes(path, firstTime.Add(-24*time.Hour), firstTime.Add(-24*time.Hour))
				}
			}
			v = guard("C10", "loader-panic", func() *Violation {
				direct, derr := config.ParseData([]byte(text))
				var wg sync.WaitGroup
				cfgs, lerr := config.LoadDeviceConfigs(context.Background(), &wg)
				if lerr != nil {
					return violation("C10", "load-error", "", "LoadDeviceConfigs failed: %v", lerr)
				}
				got, ferr := cfgs.FindConfig(id, input.KeyboardDevice)
				what := []string{"first version", "second version (saved again in place, same length)"}[gen]
				if derr != nil {
					if ferr == nil {
						return violation("C10", "file-invalid-served", "", "%s of the file is rejected by the parser (%v) but the loader serves a configuration for the device (mapping %q)\n%s", what, derr, firstMappingName(&got), clip(text, 3000))
					}
					return nil
				}
				if ferr != nil && len(text) > 65536 {
					// C10 speaks of configurations that are accepted; a loader that refuses a file of this size accepts nothing
					// wrong (no property promises anything about files beyond 64 KiB - C09 stops there too). What it serves of
					// such a file has to be what the file says, below.
					classify("file larger than 64 KiB not served by the loader (allowed)")
					return nil
				}
				if ferr != nil {
					return violation("C10", "file-not-served", "", "%s of the file is a valid configuration but the loader does not serve it: %v\n%s", what, ferr, clip(text, 3000))
				}
				if diff := firstDiff(viewFromConfig(&direct), viewFromConfig(&got.Config)); diff != "" {
					return violation("C10", "file-not-faithful", "", "%s of the file: what the loader returns is not what the file says now; %s\n%s", what, diff, clip(text, 3000))
				}
				return nil
			})
			if v != nil {
				return
			}
		}
	})
	os.Remove(path)
	if herr != nil {
		return false, violation("C10", "harness", "", "chdir: %v", herr)
	}
	classifyIf(fc.Break && d2.Channel == 0, "second version invalid")
	classifyIf(fc.Mtime == 1, "second version keeps the modification time of the first")
	classifyIf(fc.Mtime == 2, "second version dated a day before the first")
	return true, v
}

func genC10File(t *rapid.T) C10FileCase {
	d := genFullDesc(t)
	c := C10Case{D: d}
	rs := &recSpelling{t: t}
	_ = RenderTOML(d, rs.spelling())
	c.Spell = rs.rec
	return C10FileCase{C: c, Break: rapid.IntRange(0, 3).Draw(t, "break") == 0, Mtime: rapid.SampledFrom([]int{0, 0, 1, 2}).Draw(t, "mtime"),
		PadKB: rapid.SampledFrom([]int{0, 0, 0, 0, 0, 0, 0, 63, 65, 130, 300, 1100}).Draw(t, "padKB"), PadAt: rapid.IntRange(0, 2).Draw(t, "padAt")}
}

func TestC10Files(t *testing.T) { ReplayOrRapid(t, NewRun(t, "C10"), checkC10File, genC10File) }

// ---- C10 on hostile texts: whatever is accepted holds only values a MIDI message can carry ----
//
// The generator of C09 (schema-vocabulary documents with hostile values, mutated factory files, mutated valid
// configurations) is reused; the oracle is the reject side of C10 in its weakest, input-independent form: if ParseData
// accepts the text, every stored note / controller / offset / velocity / default channel is inside its MIDI range and
// the default mapping exists. (What the text *means* is decided by the structured part; this part reaches value
// combinations that no single-field invalidation produces.) TestC10Hostile (rapid) and FuzzC10 (coverage-guided, thorough).
func checkC10Hostile(c C09Case) (bool, *Violation) {
	data := c.Data
	if data == nil {
		data = []byte(c.Text)
	}
	var cfg config.Config
	var perr error
	if v := guard("C10", "parser-panic", func() *Violation {
		cfg, perr = config.ParseData(data)
		return nil
	}); v != nil {
		return false, nil // a crash is C09's finding, not this part's
	}
	if perr != nil {
		return false, nil
	}
	classify("hostile text accepted")
	if p := midiRangeProblem(&cfg); p != "" {
		return true, violation("C10", "value-out-of-midi-range", "hostile", "an accepted configuration holds %s\n%s", p, clip(string(data), 3000))
	}
	return true, nil
}

func TestC10Hostile(t *testing.T) { ReplayOrRapid(t, NewRun(t, "C10"), checkC10Hostile, genC09) }

// FuzzC10 is the coverage-guided target (thorough tier) of the hostile-text part: whatever ParseData accepts holds only
// values a MIDI message can carry and an existing default mapping.
func FuzzC10(f *testing.F) {
	r := NewRun(f, "C10")
	curRun = r
	for _, s := range c09Factory {
		f.Add([]byte(s))
	}
	f.Fuzz(func(t *testing.T, data []byte) {
		if len(data) > 65536 {
			return
		}
		c := C09Case{Data: data}
		_, v := checkC10Hostile(c)
		if v != nil && !r.Known(v) {
			r.Fail(c, v)
			t.Fatalf("VIOLATION %s", v)
		}
	})
}
