package harness

import (
	"fmt"
	"math"
	"sort"

	"pgregory.net/rapid"
)

// ---- generated "worlds": a configuration description for the key engine ----

type WorldOpts struct {
	Modes        []string // collision modes to draw from
	MaxMappings  int
	Actions      []string // action keys that may be configured
	ActionProb   int      // percent chance per action to be configured
	ExitMax      int      // exit sequence length 0..ExitMax (0 = never)
	ExitOverlap  bool     // exit keys may be note/action keys
	WideDefaults bool     // C04: defaults anywhere in the range
	KeyAxes      int      // up to this many key-emulating axes (C01)
	AxesVary     bool     // the axes may be absent / mapped otherwise in the second and third mapping
	Subs         int      // up to this many key sub-handlers (>=1)
	Velocity0    bool     // allow velocity = 0 (meaning 64)
	Overlap      bool     // an action key may also be listed as a note key of some mappings (the action wins: C02 + C04)
	Twins        bool     // with >=2 sub-handlers: a second sub-handler may report a note key with the same code as a key of another one
}

var allModes = []string{"off", "no_repeat", "interrupt", "retrigger"}

var stateActions = []string{"octave_up", "octave_down", "semitone_up", "semitone_down", "channel_up", "channel_down",
	"mapping_up", "mapping_down"}
var allKeyActions = append(append([]string{}, stateActions...), "multinote", "cc_learning", "panic")

// a pool of key codes: common named keys, buttons, and a few codes without a name
var keyPool = func() []uint16 {
	pool := []uint16{}
	for c := uint16(1); c <= 88; c++ {
		pool = append(pool, c)
	}
	for c := uint16(0x130); c <= 0x13e; c++ { // BTN_A...
		pool = append(pool, c)
	}
	pool = append(pool, 0x2f0, 0x2fe, 0x1ff) // no names: spelled xNNN
	// the rest of the code space, sampled: the upper keyboard keys, every BTN_ block (misc, mouse, joystick, digitiser,
	// wheel, trigger-happy up to its last named button), the unnamed codes below KEY_MAX, KEY_MAX itself, and codes a
	// configuration may name in hex although no kernel reports them
	pool = append(pool, 89, 100, 119, 127, 128, 183, 240, 255, 0x100, 0x10f, 0x110, 0x117, 0x120, 0x12f, 0x140, 0x14f, 0x150, 0x160,
		0x200, 0x220, 0x2c0, 0x2df, 0x2e0, 0x2e7, 0x2e8, 0x2ff, 0x300, 0x3ff, 0x1000, 0x3fff)
	return pool
}()

func drawDistinctCodes(t *rapid.T, n int, label string) []uint16 {
	// construction, not rejection: draw a permutation prefix
	idx := rapid.Permutation(indices(len(keyPool))).Draw(t, label)
	out := make([]uint16, n)
	for i := 0; i < n; i++ {
		out[i] = keyPool[idx[i]]
	}
	return out
}

func indices(n int) []int {
	out := make([]int, n)
	for i := range out {
		out[i] = i
	}
	return out
}

func clampNote(n int) int {
	if n < 0 {
		return 0
	}
	if n > 127 {
		return 127
	}
	return n
}

var colorPalette = [7]int{0x005500, 0x000055, 0x555500, 0x440000, 0x303030, 0xffffff, 0x00ffff}

func genWorld(t *rapid.T, o WorldOpts) *Desc {
	d := &Desc{Colors: colorPalette}
	d.Mode = rapid.SampledFrom(o.Modes).Draw(t, "mode")
	nMap := rapid.IntRange(1, o.MaxMappings).Draw(t, "mappings")
	nKeys := rapid.IntRange(2, 8).Draw(t, "noteKeys")
	nSubs := 1
	if o.Subs > 1 {
		nSubs = rapid.IntRange(1, o.Subs).Draw(t, "subs")
	}
	subNames := []string{"", "Aux", "Consumer Control"}[:nSubs]

	// codes: note keys, action keys, spare (unmapped) keys — all distinct
	codes := drawDistinctCodes(t, nKeys+len(o.Actions)+4, "codes")
	noteCodes := codes[:nKeys]
	actionCodes := codes[nKeys : nKeys+len(o.Actions)]

	// collision-prone notes
	center := rapid.OneOf(rapid.IntRange(0, 127), rapid.SampledFrom([]int{0, 1, 2, 60, 64, 125, 126, 127})).Draw(t, "center")
	deltas := []int{0, 0, 0, 1, -1, 2, -2, 12, -12, 24, -24}
	offsets := []int{0, 0, 0, 0, 1, 15, 7}
	keySub := make([]string, nKeys)
	for i := range keySub {
		keySub[i] = subNames[rapid.IntRange(0, nSubs-1).Draw(t, "keysub")]
	}
	// twins: the same key code reported by another sub-handler of the device is another physical key
	var twins []PK
	if o.Twins && nSubs > 1 {
		for i := rapid.IntRange(0, 2).Draw(t, "twins"); i > 0; i-- {
			k := rapid.IntRange(0, nKeys-1).Draw(t, "twinOf")
			for _, s := range subNames {
				if s != keySub[k] {
					tw := PK{s, noteCodes[k]}
					dup := false
					for _, x := range twins {
						dup = dup || x == tw
					}
					if !dup {
						twins = append(twins, tw)
					}
					break
				}
			}
		}
	}
	// ... and a second event node may carry the very name of a sub-handler (two pads of one model behind one adapter): the
	// same configuration applies to both nodes, their keys are distinct hardware keys with equal codes
	if o.Twins && rapid.IntRange(0, 4).Draw(t, "twinNode") == 0 {
		d.TwinNodes = []string{keySub[rapid.IntRange(0, nKeys-1).Draw(t, "twinNodeOf")]}
	}
	for mi := 0; mi < nMap; mi++ {
		m := MappingDef{Name: []string{"Piano", "Chromatic", "Drums"}[mi]}
		for i, code := range noteCodes {
			if mi > 0 && rapid.IntRange(0, 9).Draw(t, "unmapped") < 3 {
				continue // held key may be unmapped in another mapping
			}
			var note int
			switch rapid.IntRange(0, 9).Draw(t, "notekind") {
			case 0:
				note = rapid.SampledFrom([]int{0, 127}).Draw(t, "far")
			case 1:
				note = rapid.IntRange(0, 127).Draw(t, "any")
			default:
				note = clampNote(center + rapid.SampledFrom(deltas).Draw(t, "delta"))
			}
			off := rapid.SampledFrom(offsets).Draw(t, "off")
			m.Keys = append(m.Keys, KeyDef{Sub: keySub[i], Code: code, Note: note, Off: off})
		}
		for _, tw := range twins {
			if mi > 0 && rapid.IntRange(0, 9).Draw(t, "twinUnmapped") < 3 {
				continue
			}
			note := clampNote(center + rapid.SampledFrom(deltas).Draw(t, "twinDelta"))
			m.Keys = append(m.Keys, KeyDef{Sub: tw.Sub, Code: tw.Code, Note: note, Off: rapid.SampledFrom(offsets).Draw(t, "twinOff")})
		}
		subsUsed := map[string]bool{}
		for _, k := range m.Keys {
			subsUsed[k.Sub] = true
		}
		for _, s := range subNames {
			if subsUsed[s] {
				m.KeySubs = append(m.KeySubs, s)
			}
		}
		d.Mappings = append(d.Mappings, m)
	}

	for i, a := range o.Actions {
		if rapid.IntRange(0, 99).Draw(t, "hasAction") < o.ActionProb {
			d.Actions = append(d.Actions, ActionDef{Code: actionCodes[i], Action: a})
		}
	}

	if o.Overlap {
		for _, a := range d.Actions {
			if rapid.IntRange(0, 4).Draw(t, "overlap") != 0 {
				continue
			}
			for mi := range d.Mappings {
				if rapid.IntRange(0, 2).Draw(t, "overlapInMapping") == 0 {
					continue
				}
				m := &d.Mappings[mi]
				m.Keys = append(m.Keys, KeyDef{Sub: "", Code: a.Code, Note: clampNote(center + rapid.SampledFrom(deltas).Draw(t, "overlapDelta"))})
				if !m.hasKeySub("") {
					m.KeySubs = append([]string{""}, m.KeySubs...)
				}
			}
		}
	}

	if o.WideDefaults && rapid.IntRange(0, 2).Draw(t, "wide") > 0 {
		d.Octave = rapid.IntRange(-10, 10).Draw(t, "defOctave")
		d.Semitone = rapid.IntRange(-60, 60).Draw(t, "defSemitone")
		d.Channel = rapid.IntRange(1, 16).Draw(t, "defChannel")
	} else {
		d.Octave = rapid.SampledFrom([]int{0, 0, 0, 1, -1, 2}).Draw(t, "defOctave")
		d.Semitone = rapid.SampledFrom([]int{0, 0, 0, 1, -1, 5}).Draw(t, "defSemitone")
		d.Channel = rapid.SampledFrom([]int{1, 1, 1, 2, 10, 15, 16}).Draw(t, "defChannel")
	}
	if o.WideDefaults && rapid.IntRange(0, 11).Draw(t, "astronomic") == 0 {
		// defaults are taken as the file states them, whatever integers those are: twelve times the octave may be past 64 bits
		// (nothing is in range then), or octave and semitone may be huge and cancel (the pitch is what the statement says)
		huge := rapid.SampledFrom([]int{1 << 62, -(1 << 62), 1 << 61, 768614336404564651, -768614336404564651, 1 << 40, -(1 << 33), 1 << 31,
			700000000000000000, -700000000000000000, 9223372036854775807 - 1000000, -9223372036854775807 + 1000000}).Draw(t, "hugeOctave")
		d.Octave = huge
		switch rapid.IntRange(0, 3).Draw(t, "hugeSemitone") {
		case 0:
			d.Semitone = rapid.IntRange(-13, 13).Draw(t, "defSemitone")
		case 1: // cancels the octaves exactly (where that is representable), give or take a few semitones
			if huge < 768000000000000000 && huge > -768000000000000000 {
				d.Semitone = -12*huge + rapid.IntRange(-30, 30).Draw(t, "defSemitone")
			} else {
				d.Semitone = 9223372036854775807 - 1000000 - rapid.IntRange(0, 200).Draw(t, "defSemitone")
			}
		case 2:
			d.Semitone = 9223372036854775807 - 1000000 - rapid.IntRange(0, 200).Draw(t, "defSemitone")
		default:
			d.Semitone = -9223372036854775807 + 1000000 + rapid.IntRange(0, 200).Draw(t, "defSemitone")
		}
		if rapid.Bool().Draw(t, "hugeOnlySemitone") {
			d.Octave = rapid.IntRange(-10, 10).Draw(t, "defOctave")
		}
	}
	d.Velocity = rapid.SampledFrom([]int{64, 100, 1, 127}).Draw(t, "velocity")
	if o.Velocity0 && rapid.IntRange(0, 4).Draw(t, "vel0") == 0 {
		d.Velocity = 0
	}
	d.DefMapping = d.Mappings[rapid.IntRange(0, nMap-1).Draw(t, "defMapping")].Name

	if o.ExitMax > 0 {
		n := rapid.IntRange(0, o.ExitMax).Draw(t, "exitLen")
		var cand []uint16
		if o.ExitOverlap {
			for _, c := range noteCodes { // the exit sequence names codes, not keys: codes with a twin stay out of it
				tw := false
				for _, x := range twins {
					tw = tw || x.Code == c
				}
				if !tw {
					cand = append(cand, c)
				}
			}
			for _, a := range d.Actions {
				cand = append(cand, a.Code)
			}
		}
		cand = append(cand, codes[nKeys+len(o.Actions):]...)
		perm := rapid.Permutation(indices(len(cand))).Draw(t, "exitKeys")
		for i := 0; i < n && i < len(perm); i++ {
			d.Exit = append(d.Exit, cand[perm[i]])
		}
	}
	// the same key may be listed twice (say by name and by number): the sequence is still complete when all its keys are down
	if o.ExitMax > 0 && len(d.Exit) > 0 && len(d.Exit) < o.ExitMax && rapid.IntRange(0, 4).Draw(t, "exitDup") == 0 {
		dup := d.Exit[rapid.IntRange(0, len(d.Exit)-1).Draw(t, "exitDupOf")]
		pos := rapid.IntRange(0, len(d.Exit)).Draw(t, "exitDupPos")
		d.Exit = append(d.Exit[:pos], append([]uint16{dup}, d.Exit[pos:]...)...)
	}
	if d.Exit == nil {
		d.Exit = []uint16{}
	}

	// key-emulating axes (C01): hat or stick, in the "" analog sub-handler of every mapping
	if o.KeyAxes > 0 {
		n := rapid.IntRange(0, o.KeyAxes).Draw(t, "keyAxes")
		for i := 0; i < n; i++ {
			// a hat, a signed stick, or an unsigned stick / lever that rests at the centre of its range
			code := []uint16{0x10, 0x11, 0x00}[i] // ABS_HAT0X, ABS_HAT0Y, ABS_X
			a := AxisDef{Sub: "", Code: code, Type: "key", Min: -1, Max: 1}
			switch rapid.IntRange(0, 5).Draw(t, "axisShape") {
			case 0:
				a.Code, a.Min, a.Max = uint16(i), -32768, 32767 // ABS_X / ABS_Y
			case 1:
				a.Code, a.Min, a.Max = uint16(i), 0, 255
			case 2:
				a.Code, a.Min, a.Max = uint16(3+i), 0, 4 // five-position lever, centre 2
			}
			a.Note = intp(clampNote(center + rapid.SampledFrom(deltas).Draw(t, "axisNote")))
			if rapid.Bool().Draw(t, "axisNeg") {
				nn := clampNote(center + rapid.SampledFrom(deltas).Draw(t, "axisNoteNeg") + 3)
				a.NoteNeg = intp(nn)
			}
			if rapid.IntRange(0, 3).Draw(t, "axisFlip") == 0 {
				a.Flip = boolp(true)
			}
			a.Deadzone = floatp(rapid.SampledFrom([]float64{0, 0, 0.1}).Draw(t, "axisDZ"))
			for mi := range d.Mappings {
				m := &d.Mappings[mi]
				if len(m.AnalogSubs) == 0 {
					m.AnalogSubs = []AnalogSub{{Sub: "", Default: floatp(0.1)}}
				}
				am := a
				if mi > 0 && o.AxesVary {
					// another mapping may not emulate keys with this axis at all, or with other notes
					switch rapid.IntRange(0, 5).Draw(t, "axisInOtherMapping") {
					case 0:
						continue
					case 1:
						am = AxisDef{Sub: a.Sub, Code: a.Code, Type: "cc", CC: intp(20 + i), Min: a.Min, Max: a.Max, Deadzone: a.Deadzone}
					case 2:
						am.Note = intp(clampNote(*a.Note + 5))
					case 3:
						// the same keys, but the position is shaped differently: other deadzone, deadzone at the centre
						am.Deadzone = floatp(rapid.SampledFrom([]float64{0, 0.1, 0.3}).Draw(t, "axisDZOther"))
						if a.Min == 0 {
							am.Center = boolp(true)
						}
					case 4:
						// one direction only in the other mapping, or a second direction that this one does not have
						if a.NoteNeg != nil {
							am.NoteNeg = nil
						} else {
							am.NoteNeg = intp(clampNote(*a.Note + 3))
						}
					}
				}
				m.Axes = append(m.Axes, am)
			}
		}
	}
	return d
}

// ---- histories ----

type HistOpts struct {
	MaxLen      int
	StateBias   int  // percent: after a note press insert state-changing taps while it is held
	BurstMax    int  // largest burst of taps of one action
	Axes        bool // include moves of key-emulating axes
	Repeats     bool // inject key-repeat noise
	MidiIn      bool
	NoPanic     bool
	AnyAction   bool // no restriction on action presses (see histState.anyAction)
	UnmappedKey bool
}

type histState struct {
	d        *Desc
	down     map[uint16]bool
	sub      map[uint16]string
	actions  map[uint16]string
	heldAct  map[string]bool
	noteKeys []uint16
	actKeys  []uint16
	spare    []uint16
	steps    []Step
	axisOut  map[string]bool // axes (sub/code) whose last generated position is not 0
	// anyAction: action keys are pressed whatever else is held, also a third action while both keys of an up/down pair are
	// down (outside C04's quantifier; C13's quantifies over every key history)
	anyAction bool
}

// axisPos: position of a raw value as a fraction of travel, -1..1 around the rest position (0 for signed axes, the centre
// of the range for unsigned ones).
func axisPos(a AxisDef, v int32) float64 {
	if a.Min < 0 {
		if v < 0 {
			return float64(v) / -float64(a.Min)
		}
		if a.Max <= 0 {
			return 0
		}
		return float64(v) / float64(a.Max)
	}
	if a.Max <= a.Min {
		return 0
	}
	return 2*(float64(v)-float64(a.Min))/(float64(a.Max)-float64(a.Min)) - 1
}

func axisCentre(a AxisDef) int32 {
	if a.Min < 0 {
		return 0
	}
	return (a.Min + a.Max) / 2
}

// restValue: where an axis comes to rest: a hat or a short lever exactly at its centre, a stick a few counts off it.
func restValue(t *rapid.T, a AxisDef) int32 {
	c := axisCentre(a)
	if a.Max-a.Min <= 8 {
		return c
	}
	return c + int32(rapid.SampledFrom([]int{0, 0, 1, 2, 3, -1, -2, -3}).Draw(t, "restsAt"))
}

// axisSample: a position of the axis: ends, around the thresholds of half travel, near the centre.
func axisSample(t *rapid.T, a AxisDef) int32 {
	if a.Max-a.Min <= 8 {
		return int32(rapid.IntRange(int(a.Min), int(a.Max)).Draw(t, "lever"))
	}
	if rapid.IntRange(0, 3).Draw(t, "nearCentre") == 0 {
		return restValue(t, a)
	}
	f := rapid.SampledFrom([]float64{-1, -0.8, -0.6, -0.51, -0.5, -0.49, -0.4, -0.1, 0.1, 0.4, 0.49, 0.5, 0.51, 0.6, 0.8, 1}).Draw(t, "travel")
	var v float64
	switch {
	case a.Min < 0 && f < 0:
		v = f * -float64(a.Min)
	case a.Min < 0:
		v = f * float64(a.Max)
	default:
		v = (f + 1) / 2 * float64(a.Max)
	}
	r := int32(math.Round(v))
	if r < a.Min {
		r = a.Min
	}
	if r > a.Max {
		r = a.Max
	}
	return r
}

func axisKey(a AxisDef) string { return fmt.Sprintf("%s/%d", a.Sub, a.Code) }

// twinBit marks the generator's handle of a key whose code is also used by a key of another sub-handler
// (evdev key codes end at 0x2ff). Steps always carry the real (sub-handler, code).
const twinBit = 0x8000

// nodeBit marks the handle of a key on the second event node that carries the same sub-handler name (same code, same
// mapping entry, another hardware key).
const nodeBit = 0x4000

func newHistState(d *Desc) *histState {
	h := &histState{d: d, axisOut: map[string]bool{}, down: map[uint16]bool{}, sub: map[uint16]string{}, actions: map[uint16]string{}, heldAct: map[string]bool{}}
	seen := map[uint16]bool{}
	for _, a := range d.Actions {
		h.actions[a.Code] = a.Action
	}
	for _, m := range d.Mappings {
		for _, k := range m.Keys {
			if _, isAction := h.actions[k.Code]; isAction && k.Sub == "" {
				continue // an action key that is also listed as a note key: it is driven as an action key
			}
			// handle of a key: its code; a second key with the same code on another sub-handler gets code|twinBit
			hd := k.Code
			if s, ok := h.sub[hd]; ok && s != k.Sub {
				hd |= twinBit
			}
			if !seen[hd] {
				seen[hd] = true
				h.noteKeys = append(h.noteKeys, hd)
				h.sub[hd] = k.Sub
			}
		}
	}
	for _, a := range d.Actions {
		h.actions[a.Code] = a.Action
		if !seen[a.Code] {
			seen[a.Code] = true
			h.actKeys = append(h.actKeys, a.Code)
		}
	}
	for _, c := range d.Exit {
		if !seen[c] {
			seen[c] = true
			h.spare = append(h.spare, c)
		}
	}
	for _, tn := range d.TwinNodes {
		for _, k := range append([]uint16{}, h.noteKeys...) {
			if k&twinBit == 0 && h.sub[k] == tn {
				h.noteKeys = append(h.noteKeys, k|nodeBit)
				h.sub[k|nodeBit] = tn
			}
		}
	}
	sort.Slice(h.noteKeys, func(i, j int) bool { return h.noteKeys[i] < h.noteKeys[j] })
	// one more key that nothing refers to
	for _, c := range keyPool {
		if !seen[c] {
			h.spare = append(h.spare, c)
			break
		}
	}
	return h
}

// scatter puts every key that is not a note key (action keys, exit-sequence keys, unmapped keys) on one of the device's
// sub-handlers: actions and the exit sequence are configured per device by key code, whichever event node reports the key.
// A code that is a note key of some sub-handler stays there.
func (h *histState) scatter(t *rapid.T) {
	subs := append(subHandlers(h.d), "Consumer Control")
	if len(subs) <= 2 && rapid.IntRange(0, 3).Draw(t, "scatter") != 0 {
		return
	}
	keys := append(append([]uint16{}, h.actKeys...), h.spare...)
	sort.Slice(keys, func(i, j int) bool { return keys[i] < keys[j] })
	for _, k := range keys {
		if _, isNote := h.sub[k]; isNote {
			continue
		}
		if sub := subs[rapid.IntRange(0, len(subs)-1).Draw(t, "keyOn")]; sub != "" {
			h.sub[k] = sub
		}
	}
}

func (h *histState) pairComplete() (string, bool) {
	for _, a := range stateActions {
		if h.heldAct[a] && h.heldAct[actionPartner[a]] {
			return a, true
		}
	}
	return "", false
}

func (h *histState) codeOfAction(a string) (uint16, bool) {
	for c, x := range h.actions {
		if x == a {
			return c, true
		}
	}
	return 0, false
}

// toggle emits the next legal event for the key (press if up, release if down), respecting the
// quantifier of C04: no action press while a complete up/down pair is held (a release of the pair is
// emitted instead).
func (h *histState) toggle(code uint16) {
	if act, isAct := h.actions[code]; isAct && !h.down[code] {
		if p, complete := h.pairComplete(); complete && !h.anyAction {
			// release one key of the pair instead of pressing a third action
			c, _ := h.codeOfAction(p)
			h.emitKey(c, 0)
			return
		}
		_ = act
	}
	if h.down[code] {
		h.emitKey(code, 0)
	} else {
		h.emitKey(code, 1)
	}
}

func (h *histState) emitKey(code uint16, val int32) {
	h.steps = append(h.steps, Step{T: "key", Sub: h.sub[code], Node: int(code & nodeBit / nodeBit), Code: code &^ (twinBit | nodeBit), Val: val})
	if val == 1 {
		h.down[code] = true
		if a, ok := h.actions[code]; ok {
			h.heldAct[a] = true
		}
	} else {
		delete(h.down, code)
		if a, ok := h.actions[code]; ok {
			delete(h.heldAct, a)
		}
	}
}

func (h *histState) tap(code uint16) {
	if h.down[code] {
		h.emitKey(code, 0)
		return
	}
	h.toggle(code)
	if h.down[code] {
		h.emitKey(code, 0)
	}
}

func genHistory(t *rapid.T, d *Desc, o HistOpts) []Step {
	h := newHistState(d)
	h.anyAction = o.AnyAction
	h.scatter(t)
	n := rapid.IntRange(1, o.MaxLen).Draw(t, "histLen")
	var stateKeys []uint16
	for _, c := range h.actKeys {
		switch h.actions[c] {
		case "panic":
		default:
			stateKeys = append(stateKeys, c)
		}
	}
	sort.Slice(stateKeys, func(i, j int) bool { return stateKeys[i] < stateKeys[j] })
	actKeys := append([]uint16{}, h.actKeys...)
	sort.Slice(actKeys, func(i, j int) bool { return actKeys[i] < actKeys[j] })
	var axes []AxisDef
	if o.Axes {
		axes = d.Mappings[0].Axes
	}
	for iter := 0; len(h.steps) < n && iter < 4*n+8; iter++ {
		kind := rapid.IntRange(0, 99).Draw(t, "intent")
		switch {
		case kind < 45 && len(h.noteKeys) > 0: // toggle a note key
			c := h.noteKeys[rapid.IntRange(0, len(h.noteKeys)-1).Draw(t, "key")]
			wasUp := !h.down[c]
			h.toggle(c)
			if wasUp && len(stateKeys) > 0 && rapid.IntRange(0, 99).Draw(t, "stateWhileHeld") < o.StateBias {
				k := rapid.IntRange(1, 4).Draw(t, "taps")
				for i := 0; i < k; i++ {
					h.tap(stateKeys[rapid.IntRange(0, len(stateKeys)-1).Draw(t, "stateKey")])
				}
			}
		case kind < 55 && len(h.noteKeys) > 0: // tap a note key
			h.tap(h.noteKeys[rapid.IntRange(0, len(h.noteKeys)-1).Draw(t, "key")])
		case kind < 70 && len(actKeys) > 0: // toggle an action key (press and hold / release)
			c := actKeys[rapid.IntRange(0, len(actKeys)-1).Draw(t, "act")]
			if o.NoPanic && h.actions[c] == "panic" {
				continue
			}
			h.toggle(c)
		case kind < 82 && len(actKeys) > 0: // tap an action key
			c := actKeys[rapid.IntRange(0, len(actKeys)-1).Draw(t, "act")]
			if o.NoPanic && h.actions[c] == "panic" {
				continue
			}
			h.tap(c)
		case kind < 87 && len(stateKeys) > 0 && o.BurstMax > 1: // burst
			c := stateKeys[rapid.IntRange(0, len(stateKeys)-1).Draw(t, "act")]
			k := rapid.IntRange(2, o.BurstMax).Draw(t, "burst")
			for i := 0; i < k; i++ {
				h.tap(c)
			}
		case kind < 90 && o.Repeats && len(h.noteKeys) > 0 && rapid.Bool().Draw(t, "otherEvent"):
			// what else an event node delivers between the key events: scan codes (EV_MSC before every key of a keyboard), LED and
			// switch states, relative movement, and EV_SYN events other than the report separator - SYN_DROPPED (3) above all,
			// the kernel's notice that its buffer overflowed. None of them is a key event, whatever code and value it carries.
			c := h.noteKeys[rapid.IntRange(0, len(h.noteKeys)-1).Draw(t, "key")]
			typ := rapid.SampledFrom([]uint16{0, 0, 0, 4, 4, 2, 0x11, 5, 0x12, 0x14, 0x15, 0x17, 0x1f}).Draw(t, "otherType")
			code := c &^ (twinBit | nodeBit)
			val := rapid.SampledFrom([]int32{0, 1, 1, 2, -1, 458756}).Draw(t, "otherVal")
			switch typ {
			case 0:
				code = rapid.SampledFrom([]uint16{3, 3, 1, 2, 4, 15}).Draw(t, "synCode") // never 0: SYN_REPORT fences the steps
			case 4:
				code = rapid.SampledFrom([]uint16{4, 4, 5, code}).Draw(t, "mscCode")
			default:
				if rapid.Bool().Draw(t, "smallCode") {
					code = uint16(rapid.IntRange(0, 12).Draw(t, "otherCode"))
				}
			}
			h.steps = append(h.steps, Step{T: "other", Typ: typ, Sub: h.sub[c], Node: int(c & nodeBit / nodeBit), Code: code, Val: val})
		case kind < 90 && o.Repeats && len(h.noteKeys) > 0:
			c := h.noteKeys[rapid.IntRange(0, len(h.noteKeys)-1).Draw(t, "key")]
			h.steps = append(h.steps, Step{T: "rep", Sub: h.sub[c], Node: int(c & nodeBit / nodeBit), Code: c &^ (twinBit | nodeBit), Val: 2})
		case kind < 93 && o.UnmappedKey && len(h.spare) > 0:
			h.toggle(h.spare[rapid.IntRange(0, len(h.spare)-1).Draw(t, "spare")])
		case kind < 94 && len(h.down)+len(h.axisOut) > 0 && rapid.IntRange(0, 2).Draw(t, "settle") == 0:
			// settle: everything is let go (keys in random order, axes back to rest) - a quiescent point in the middle of the history
			var held []uint16
			for c := range h.down {
				held = append(held, c)
			}
			sort.Slice(held, func(i, j int) bool { return held[i] < held[j] })
			var out []int
			for i := range axes {
				if h.axisOut[axisKey(axes[i])] {
					out = append(out, i)
				}
			}
			order := rapid.Permutation(indices(len(held)+len(out))).Draw(t, "settleOrder")
			for _, k := range order {
				if k < len(held) {
					h.emitKey(held[k], 0)
				} else {
					a := axes[out[k-len(held)]]
					h.steps = append(h.steps, Step{T: "abs", Sub: a.Sub, Code: a.Code, Val: restValue(t, a)})
					delete(h.axisOut, axisKey(a))
				}
			}
		case kind < 95 && len(axes) > 0 && rapid.Bool().Draw(t, "excursionAcrossMappings"):
			// an axis is pushed to an end stop (or somewhere), the mapping is changed while it is there, then it comes back
			var mapKeys []uint16
			for _, c := range actKeys {
				if a := h.actions[c]; a == "mapping_up" || a == "mapping_down" {
					mapKeys = append(mapKeys, c)
				}
			}
			if len(mapKeys) == 0 {
				continue
			}
			a := axes[rapid.IntRange(0, len(axes)-1).Draw(t, "axis")]
			v := rapid.SampledFrom([]int32{a.Min, a.Max, a.Min, a.Max, axisSample(t, a)}).Draw(t, "excursionTo")
			if rapid.Bool().Draw(t, "restFirst") {
				// the axis reports its rest position under this mapping, the mapping is left, and the excursion ends after the
				// mapping was (probably) entered again: what was remembered for it at the first visit is stale
				h.steps = append(h.steps, Step{T: "abs", Sub: a.Sub, Code: a.Code, Val: restValue(t, a)})
				h.tap(mapKeys[rapid.IntRange(0, len(mapKeys)-1).Draw(t, "mappingKeyAway")])
			}
			h.steps = append(h.steps, Step{T: "abs", Sub: a.Sub, Code: a.Code, Val: v})
			for k := rapid.IntRange(1, 2).Draw(t, "mappingTaps"); k > 0; k-- {
				h.tap(mapKeys[rapid.IntRange(0, len(mapKeys)-1).Draw(t, "mappingKey")])
			}
			h.steps = append(h.steps, Step{T: "abs", Sub: a.Sub, Code: a.Code, Val: restValue(t, a)})
			delete(h.axisOut, axisKey(a))
		case kind < 97 && len(axes) > 0:
			a := axes[rapid.IntRange(0, len(axes)-1).Draw(t, "axis")]
			v := axisSample(t, a)
			h.steps = append(h.steps, Step{T: "abs", Sub: a.Sub, Code: a.Code, Val: v})
			out := math.Abs(axisPos(a, v)) >= 0.3
			if out {
				h.axisOut[axisKey(a)] = true
			} else {
				delete(h.axisOut, axisKey(a))
			}
			// an axis that was pushed comes back sooner or later: often right after the next few key events
			if out && rapid.IntRange(0, 1).Draw(t, "axisComesBack") == 0 {
				for k := rapid.IntRange(0, 3).Draw(t, "keysMeanwhile"); k > 0 && len(actKeys)+len(h.noteKeys) > 0; k-- {
					all := append(append([]uint16{}, h.noteKeys...), actKeys...)
					c := all[rapid.IntRange(0, len(all)-1).Draw(t, "meanwhileKey")]
					if o.NoPanic && h.actions[c] == "panic" {
						continue
					}
					h.toggle(c)
				}
				h.steps = append(h.steps, Step{T: "abs", Sub: a.Sub, Code: a.Code, Val: restValue(t, a)})
				delete(h.axisOut, axisKey(a))
			}
		case o.MidiIn && rapid.IntRange(0, 3).Draw(t, "midiOther") == 0:
			h.steps = append(h.steps, Step{T: "midi", Midi: otherMidiMessage(t)})
		case o.MidiIn:
			ch := rapid.IntRange(0, 15).Draw(t, "midiCh")
			note := rapid.IntRange(0, 127).Draw(t, "midiNote")
			on := rapid.Bool().Draw(t, "midiOn")
			st := byte(0x80)
			if on {
				st = 0x90
			}
			h.steps = append(h.steps, Step{T: "midi", Midi: []byte{st | byte(ch), byte(note), 90}})
		}
	}
	return h.steps
}

// genBystander: what another keyboard of the same model is doing while the device under test is played: a few note keys
// pressed and left held (the same keys, so the same channels and pitches), some state-changing taps.
func genBystander(t *rapid.T, d *Desc) []Step {
	if rapid.IntRange(0, 5).Draw(t, "bystander") != 0 {
		return nil
	}
	h := newHistState(d)
	var stateKeys []uint16
	for _, c := range h.actKeys {
		if a := h.actions[c]; a != "panic" && a != "multinote" && a != "cc_learning" {
			stateKeys = append(stateKeys, c)
		}
	}
	sort.Slice(stateKeys, func(i, j int) bool { return stateKeys[i] < stateKeys[j] })
	for i := rapid.IntRange(1, 6).Draw(t, "bystanderOps"); i > 0; i-- {
		if len(stateKeys) > 0 && rapid.IntRange(0, 3).Draw(t, "bystanderState") == 0 {
			h.tap(stateKeys[rapid.IntRange(0, len(stateKeys)-1).Draw(t, "bystanderStateKey")])
		} else if len(h.noteKeys) > 0 {
			k := h.noteKeys[rapid.IntRange(0, len(h.noteKeys)-1).Draw(t, "bystanderKey")]
			if !h.down[k] {
				h.toggle(k)
			}
		}
	}
	return h.steps
}

// otherMidiMessage: a legal MIDI message that is neither Note On nor Note Off - what else arrives on an input port next to the
// notes: controllers, pitch bend, program change and pressure (two and three bytes), the single-byte real-time messages
// (clock, start, continue, stop, active sensing, system reset), song position / select, tune request, a complete SysEx.
func otherMidiMessage(t *rapid.T) []byte {
	ch := byte(rapid.IntRange(0, 15).Draw(t, "otherMidiCh"))
	d1 := byte(rapid.IntRange(0, 127).Draw(t, "otherMidiD1"))
	d2 := byte(rapid.IntRange(0, 127).Draw(t, "otherMidiD2"))
	switch rapid.IntRange(0, 13).Draw(t, "otherMidiKind") {
	case 0:
		return []byte{0xB0 | ch, d1, d2}
	case 1:
		return []byte{0xB0 | ch, rapid.SampledFrom([]byte{120, 121, 123, 64, 0, 32}).Draw(t, "modeCC"), d2}
	case 2:
		return []byte{0xE0 | ch, d1, d2}
	case 3:
		return []byte{0xC0 | ch, d1}
	case 4:
		return []byte{0xD0 | ch, d1}
	case 5:
		return []byte{0xA0 | ch, d1, d2}
	case 6:
		return []byte{0xF2, d1, d2}
	case 7:
		return []byte{0xF3, d1}
	case 8:
		return []byte{0xF6}
	case 9:
		return []byte{0xF0, 0x7E, 0x7F, 0x06, 0x01, 0xF7}
	case 10:
		return []byte{0xFF} // system reset
	}
	return []byte{rapid.SampledFrom([]byte{0xF8, 0xFA, 0xFB, 0xFC, 0xFE, 0xFF}).Draw(t, "realTime")}
}
