package harness

import (
	"context"
	"fmt"
	"os"
	"runtime"
	"strings"
	"sync"
	"sync/atomic"
	"testing"
	"time"

	"github.com/gethiox/HIDI/internal/pkg/input"
	"github.com/gethiox/HIDI/internal/pkg/midi"
	"github.com/gethiox/HIDI/internal/pkg/midi/device"
	"github.com/gethiox/HIDI/internal/pkg/midi/device/config"
	"github.com/gethiox/HIDI/internal/pkg/midi/driver"
	"github.com/gethiox/HIDI/internal/pkg/utils"
	"pgregory.net/rapid"
)

// C15: MIDI transport. The real pipeline is assembled as in cmd/hidi/main.go + manager.go:
//   port input -> ProcessMidiEvents -> midiEventsIn -> DynamicFanOut -> per-consumer channels
//   emitters -> midiEventsOut -> ProcessMidiEvents -> port output
// The harness owns the order of its own actions (spawn / stall / resume / despawn, feeder and emitter
// pacing); interleavings inside the units' goroutines are whatever the Go scheduler does.

type fakeIn struct{ ch chan []byte }

func (f *fakeIn) Name() string                  { return "verif-in" }
func (f *fakeIn) Open() error                   { return nil }
func (f *fakeIn) Close() error                  { return nil }
func (f *fakeIn) ReceiveChannel() <-chan []byte { return f.ch }

type fakeOut struct{ ch chan []byte }

func (f *fakeOut) Name() string               { return "verif-out" }
func (f *fakeOut) Open() error                { return nil }
func (f *fakeOut) Close() error               { return nil }
func (f *fakeOut) SendChannel() chan<- []byte { return f.ch }

type c15Op struct {
	Kind     string `json:"kind"` // spawn | despawn | stall | resume | wait
	Consumer int    `json:"consumer"`
	N        int    `json:"n"`
	Device   bool   `json:"device,omitempty"` // spawn: the consumer is a real device.Device (manager attach pattern)
}

type C15Case struct {
	OutCap     int     `json:"out_cap"`      // midiEventsOut capacity
	InCap      int     `json:"in_cap"`       // midiEventsIn capacity (also the fan-out's per-consumer capacity)
	PortOutCap int     `json:"port_out_cap"` // driver send channel capacity
	PortInCap  int     `json:"port_in_cap"`
	Emitters   []int   `json:"emitters"` // messages per emitter
	InputN     int     `json:"input_n"`  // messages arriving on the input port
	Script     []c15Op `json:"script"`
	Procs      int     `json:"procs"`
	Direct     bool    `json:"direct"`            // feed the fan-out directly (no ProcessMidiEvents in front of it)
	IdleMs     int     `json:"idle_ms,omitempty"` // emitters and the input stream pause this long half-way (a long-lived, mostly idle transport)
}

// c15Extras: the messages of other shapes that precede numbered message i on the input port.
func c15Extras(i int) [][]byte {
	var out [][]byte
	if i%5 == 3 {
		out = append(out, []byte{0xF8}) // timing clock
	}
	if i%7 == 2 {
		out = append(out, []byte{0xFE}) // active sensing
	}
	if i%11 == 4 {
		out = append(out, []byte{0xF0, 0x7D, byte(i & 0x7f), 0xF7}) // SysEx
	}
	if i%13 == 6 {
		out = append(out, []byte{0xC0 | byte(i&0x0f), byte(i & 0x7f)}, []byte{0xFA}) // program change, start
	}
	if i%17 == 8 {
		// a larger SysEx handed over in pieces: the first one has no end marker, the last one no start marker
		out = append(out, []byte{0xF0, 0x7D, byte(i & 0x7f), 1, 2, 3}, []byte{0xF7})
	}
	if i%19 == 5 {
		out = append(out, []byte{0xFF}, []byte{0xFB}, []byte{0xFC}) // system reset, continue, stop
	}
	if i%23 == 9 {
		// song position, song select, tune request, controller, pitch bend, poly pressure, channel pressure
		out = append(out, []byte{0xF2, byte(i & 0x7f), 1}, []byte{0xF3, byte(i & 0x7f)}, []byte{0xF6}, []byte{0xB0 | byte(i&0x0f), 64, 127},
			[]byte{0xE0 | byte(i&0x0f), 0, 64}, []byte{0xA0 | byte(i&0x0f), 60, 1}, []byte{0xD0 | byte(i&0x0f), 99})
	}
	return out
}

// c15MsgList renders a list of messages with the message boundaries visible (two messages are not one message of both).
func c15MsgList(ms [][]byte) string {
	parts := make([]string, len(ms))
	for i, m := range ms {
		parts[i] = fmt.Sprintf("% x", m)
	}
	return strings.Join(parts, " | ")
}

func c15IsExtra(m []byte) bool {
	if len(m) == 0 {
		return false
	}
	switch {
	case len(m) == 1 && (m[0] == 0xF8 || m[0] == 0xFE || m[0] == 0xFA):
		return true
	case len(m) == 4 && m[0] == 0xF0 && m[3] == 0xF7:
		return true
	case len(m) == 2 && m[0]&0xf0 == 0xC0:
		return true
	case m[0] == 0xF0 || m[0] == 0xF7 || m[0] == 0xFF || m[0] == 0xFB || m[0] == 0xFC || m[0] == 0xF2 || m[0] == 0xF3 || m[0] == 0xF6:
		return true
	case m[0]&0xf0 == 0xB0 || m[0]&0xf0 == 0xE0 || m[0]&0xf0 == 0xA0 || m[0]&0xf0 == 0xD0:
		return true
	}
	return false
}

func seqMsg(seq int) []byte { return []byte{0x90, byte(seq >> 7 & 0x7f), byte(seq & 0x7f)} }
func msgSeq(m []byte) int   { return int(m[1])<<7 | int(m[2]) }

type c15Consumer struct {
	id            int64
	ch            <-chan midi.Event
	got           []int
	bad           string
	pendingExtras [][]byte
	stalled       int32
	resume        chan struct{}
	done          chan struct{}
	last          int64 // last seq received (atomic), -1 none
	begunAt       int64 // messages whose send had begun when SpawnOutput returned
	seenMax       int64 // max seq any consumer had received when DespawnOutput was called (-1: n/a)
	despawn       bool
	byScript      bool // detached by a script step (not by the final wind-down after the stream was delivered)
	isDevice      bool
	devIn         chan *input.InputEvent
	devDone       chan struct{}
}

const c15Guard = 6 * time.Second

// blockedReport looks for the stable blocked state of the fan-out: run() parked in a channel send
// while a DespawnOutput caller is parked on the mutex.
func blockedReport() (string, bool) {
	st := allStacks()
	var keep []string
	runBlocked, despawnBlocked := false, false
	for _, g := range strings.Split(st, "\n\n") {
		if strings.Contains(g, "DynamicFanOut") {
			keep = append(keep, firstLines(g, 12))
			if strings.Contains(g, ").run") && strings.Contains(g, "chan send") {
				runBlocked = true
			}
			if strings.Contains(g, "DespawnOutput") && (strings.Contains(g, "sync.(*Mutex).Lock") || strings.Contains(g, "semacquire")) {
				despawnBlocked = true
			}
		}
	}
	return strings.Join(keep, "\n\n"), runBlocked && despawnBlocked
}

func checkC15(c C15Case) (nontrivial bool, v *Violation) {
	if c.Procs > 0 {
		old := runtime.GOMAXPROCS(c.Procs)
		defer runtime.GOMAXPROCS(old)
	}
	v = guard("C15", "panic", func() *Violation { return runC15(&c, &nontrivial) })
	return nontrivial, v
}

func runC15(c *C15Case, nontrivial *bool) *Violation {
	ctx, cancel := context.WithCancel(context.Background())
	defer cancel()
	midiEventsOut := make(chan midi.Event, c.OutCap)
	midiEventsIn := make(chan midi.Event, c.InCap)
	pin := &fakeIn{ch: make(chan []byte, c.PortInCap)}
	pout := &fakeOut{ch: make(chan []byte, c.PortOutCap)}
	score := midi.Score{}
	if !c.Direct {
		midi.ProcessMidiEvents(ctx, driver.Port{Input: pin, Output: pout}, midiEventsOut, midiEventsIn, &score)
	}
	fan := utils.NewDynamicFanOut[midi.Event](midiEventsIn)

	// A stall is "no progress", not "took long": the waits below give up only when the relevant counter has not moved for
	// 2 x c15Guard while no emitter / feeder is in its planned pause (on a busy machine everything may be slow, nothing stands still)
	var pausing int32
	var collectedN int64
	waitProgress := func(done <-chan struct{}, progress func() int64) bool {
		last, lastMove := progress(), time.Now()
		for {
			select {
			case <-done:
				return true
			case <-time.After(10 * time.Millisecond):
			}
			if p := progress(); p != last || atomic.LoadInt32(&pausing) > 0 {
				last, lastMove = p, time.Now()
			}
			if time.Since(lastMove) > 2*c15Guard {
				return false
			}
		}
	}
	// ---- output path: emitters -> port ----
	var collected [][]byte
	collectDone := make(chan struct{})
	collectReached := make(chan struct{})
	idle := time.Duration(c.IdleMs) * time.Millisecond
	totalOut := 0
	for _, n := range c.Emitters {
		totalOut += n
	}
	if !c.Direct {
		if totalOut == 0 {
			close(collectReached)
		}
		go func() {
			// keeps reading until the transport is stopped: anything beyond what was emitted is a finding too
			defer close(collectDone)
			for {
				select {
				case m := <-pout.ch:
					collected = append(collected, append([]byte(nil), m...))
					atomic.AddInt64(&collectedN, 1)
					if len(collected) == totalOut {
						close(collectReached)
					}
				case <-ctx.Done():
					return
				}
			}
		}()
		for e, n := range c.Emitters {
			go func(e, n int) {
				for i := 0; i < n; i++ {
					if idle > 0 && i == (n+1)/2 {
						atomic.AddInt32(&pausing, 1)
						time.Sleep(idle)
						atomic.AddInt32(&pausing, -1)
					}
					select {
					case midiEventsOut <- midi.Event{0x90 | byte(e), byte(i >> 7 & 0x7f), byte(i & 0x7f)}:
					case <-ctx.Done():
						return
					}
					if i%7 == e%7 {
						runtime.Gosched()
					}
				}
			}(e, n)
		}
	} else {
		close(collectDone)
		close(collectReached)
	}

	// ---- input path: feeder -> (ProcessMidiEvents ->) fan-out -> consumers ----
	var begun int64
	feederDone := make(chan struct{})
	go func() {
		defer close(feederDone)
		for i := 0; i < c.InputN; i++ {
			if idle > 0 && i == (c.InputN+1)/2 {
				atomic.AddInt32(&pausing, 1)
				time.Sleep(idle)
				atomic.AddInt32(&pausing, -1)
			}
			// messages of other shapes travel with the numbered ones: real-time bytes, a SysEx, a 2-byte message (what the
			// driver passes through); they belong to the numbered message that follows them
			for _, x := range c15Extras(i) {
				if c.Direct {
					select {
					case midiEventsIn <- midi.Event(x):
					case <-ctx.Done():
						return
					}
				} else {
					select {
					case pin.ch <- x:
					case <-ctx.Done():
						return
					}
				}
			}
			atomic.AddInt64(&begun, 1)
			if c.Direct {
				select {
				case midiEventsIn <- midi.Event(seqMsg(i)):
				case <-ctx.Done():
					return
				}
			} else {
				select {
				case pin.ch <- seqMsg(i):
				case <-ctx.Done():
					return
				}
			}
		}
	}()

	consumers := map[int]*c15Consumer{}
	var globalMax int64 = -1
	startConsumer := func(cs *c15Consumer) {
		go func() {
			defer close(cs.done)
			for {
				if atomic.LoadInt32(&cs.stalled) == 1 {
					select {
					case <-cs.resume:
					case <-ctx.Done():
						return
					}
					continue
				}
				select {
				case m, ok := <-cs.ch:
					if !ok {
						return
					}
					if len(m) != 3 || m[0] != 0x90 {
						if !c15IsExtra(m) {
							if cs.bad == "" {
								cs.bad = fmt.Sprintf("received % x, which is not a message that was sent", []byte(m))
							}
							continue // keep reading: the verdict is given at the end, the pipeline must not stall behind this consumer
						}
						cs.pendingExtras = append(cs.pendingExtras, append([]byte(nil), m...))
						continue
					}
					s := msgSeq(m)
					if len(cs.got) > 0 && cs.got[len(cs.got)-1]+1 == s && cs.bad == "" {
						// two consecutive numbered messages: exactly the other-shaped messages that were sent between them
						if want := c15Extras(s); c15MsgList(cs.pendingExtras) != c15MsgList(want) {
							cs.bad = fmt.Sprintf("received [%s] between messages %d and %d, the port delivered [%s] there (messages of other shapes lost, duplicated, reordered, split or joined)", c15MsgList(cs.pendingExtras), s-1, s, c15MsgList(want))
						}
					}
					cs.pendingExtras = nil
					cs.got = append(cs.got, s)
					atomic.StoreInt64(&cs.last, int64(s))
					for {
						g := atomic.LoadInt64(&globalMax)
						if int64(s) <= g || atomic.CompareAndSwapInt64(&globalMax, g, int64(s)) {
							break
						}
					}
				case <-ctx.Done():
					return
				}
			}
		}()
	}
	despawnStalledFull := false
	doDespawn := func(cs *c15Consumer) *Violation {
		cs.seenMax = atomic.LoadInt64(&globalMax)
		cs.despawn = true
		done := make(chan error, 1)
		go func() { done <- fan.DespawnOutput(cs.id) }()
		select {
		case err := <-done:
			if err != nil {
				return violation("C15", "despawn-error", "", "DespawnOutput(%d) failed: %v", cs.id, err)
			}
		case <-time.After(c15Guard):
			rep, blocked := blockedReport()
			time.Sleep(time.Second)
			rep2, blocked2 := blockedReport()
			select {
			case <-done:
				return nil // merely slow
			default:
			}
			if blocked && blocked2 {
				kind := "consumer-stopped-reading"
				return violation("C15", "despawn-blocked", kind,
					"DespawnOutput(%d) of a consumer that has stopped reading did not return within %v: the fan-out's delivery goroutine is parked in a channel send to it while holding the mutex DespawnOutput needs (stable over two dumps 1 s apart)\n%s",
					cs.id, c15Guard+time.Second, rep2)
			}
			return violation("C15", "despawn-slow", "", "DespawnOutput(%d) did not return within %v, but the blocked state is not the known one\n%s\n----\n%s", cs.id, c15Guard+time.Second, rep, rep2)
		}
		return nil
	}

	// A consumer that has stopped reading blocks the fan-out (and with it SpawnOutput / DespawnOutput of
	// others) until it reads again or is removed; the manager always removes a device right after it stops.
	// The script therefore resumes every other stalled consumer before it attaches or detaches one.
	resumeOthers := func(except *c15Consumer) {
		for _, o := range consumers {
			if o != except && atomic.CompareAndSwapInt32(&o.stalled, 1, 0) {
				select {
				case o.resume <- struct{}{}:
				default:
				}
			}
		}
	}
	for _, op := range c.Script {
		cs := consumers[op.Consumer]
		if op.Kind == "spawn" || op.Kind == "despawn" {
			resumeOthers(cs)
		}
		switch op.Kind {
		case "spawn":
			if cs != nil {
				continue
			}
			id, ch, err := fan.SpawnOutput()
			if err != nil {
				return violation("C15", "spawn-error", "", "SpawnOutput failed: %v", err)
			}
			cs = &c15Consumer{id: id, ch: ch, resume: make(chan struct{}, 1), done: make(chan struct{}), last: -1, seenMax: -1, begunAt: atomic.LoadInt64(&begun)}
			consumers[op.Consumer] = cs
			if op.Device {
				// the manager's attach pattern with a real device: it reads MIDI-in while ProcessEvents runs and
				// stops reading when its event stream ends; then it is despawned
				cs.isDevice = true
				cs.devIn = make(chan *input.InputEvent)
				cs.devDone = make(chan struct{})
				d := &Desc{Mode: "off", Exit: []uint16{}, Channel: 1, Velocity: 64, DefMapping: "M", Colors: colorPalette, Mappings: []MappingDef{{Name: "M"}}}
				cfg, _, pv := parseDesc("C15", d)
				if pv != nil {
					return pv
				}
				sink := make(chan midi.Event, 64)
				dev := device.NewDevice(makeInputDevice(d, "verif"), config.DeviceConfig{Config: cfg}, sink, ch, true, 1, make(chan os.Signal, 1))
				go func() { dev.ProcessEvents(cs.devIn); close(cs.devDone) }()
				close(cs.done)
			} else {
				startConsumer(cs)
			}
		case "stall":
			if cs != nil && !cs.isDevice && !cs.despawn {
				atomic.StoreInt32(&cs.stalled, 1)
			}
		case "resume":
			if cs != nil && !cs.isDevice && atomic.CompareAndSwapInt32(&cs.stalled, 1, 0) {
				select {
				case cs.resume <- struct{}{}:
				default:
				}
			}
		case "despawn":
			if cs == nil || cs.despawn {
				continue
			}
			if cs.isDevice {
				close(cs.devIn) // the device's event stream ends: it stops reading MIDI-in
				select {
				case <-cs.devDone:
				case <-time.After(c15Guard):
					return violation("C15", "device-did-not-return", "", "ProcessEvents did not return after its event stream ended\n%s", firstLines(allStacks(), 80))
				}
				// let traffic pile up behind the device that no longer reads
				time.Sleep(time.Duration(op.N) * time.Millisecond)
				despawnStalledFull = true
			} else if atomic.LoadInt32(&cs.stalled) == 1 {
				time.Sleep(time.Duration(op.N) * time.Millisecond)
				despawnStalledFull = true
			}
			cs.byScript = true
			if dv := doDespawn(cs); dv != nil {
				return dv
			}
			if atomic.CompareAndSwapInt32(&cs.stalled, 1, 0) {
				select {
				case cs.resume <- struct{}{}:
				default:
				}
			}
		case "wait":
			target := atomic.LoadInt64(&begun) + int64(op.N)
			deadline := time.Now().Add(30 * time.Millisecond)
			for atomic.LoadInt64(&begun) < target && time.Now().Before(deadline) {
				runtime.Gosched()
				time.Sleep(200 * time.Microsecond)
			}
		}
	}
	// wind down: nobody stays stalled; devices are detached the way the manager does it
	resumeOthers(nil)
	for _, cs := range consumers {
		if cs.isDevice && !cs.despawn {
			close(cs.devIn)
			<-cs.devDone
			if dv := doDespawn(cs); dv != nil {
				return dv
			}
			continue
		}
		if atomic.CompareAndSwapInt32(&cs.stalled, 1, 0) {
			select {
			case cs.resume <- struct{}{}:
			default:
			}
		}
	}
	if !waitProgress(feederDone, func() int64 { return atomic.LoadInt64(&begun) }) {
		rep, _ := blockedReport()
		return violation("C15", "input-stalled", "", "the input stream stopped flowing although every remaining consumer is reading (%d of %d messages accepted)\n%s", atomic.LoadInt64(&begun), c.InputN, rep)
	}
	// every live consumer must receive the stream to its end
	live := 0
	for _, cs := range consumers {
		if cs.despawn || cs.isDevice || cs.begunAt > int64(c.InputN-1) {
			continue // nothing (more) is owed to this consumer
		}
		live++
		lastSeen, lastMove := atomic.LoadInt64(&cs.last), time.Now()
		for atomic.LoadInt64(&cs.last) < int64(c.InputN-1) && time.Since(lastMove) < 2*c15Guard && c.InputN > 0 {
			time.Sleep(200 * time.Microsecond)
			if l := atomic.LoadInt64(&cs.last); l != lastSeen {
				lastSeen, lastMove = l, time.Now()
			}
		}
	}
	for _, cs := range consumers {
		if !cs.despawn {
			if dv := doDespawn(cs); dv != nil {
				return dv
			}
		}
	}
	for k, cs := range consumers {
		select {
		case <-cs.done:
		case <-time.After(c15Guard):
			return violation("C15", "consumer-channel-not-closed", "", "consumer %d: its channel was not closed by DespawnOutput", k)
		}
	}
	if !waitProgress(collectReached, func() int64 { return atomic.LoadInt64(&collectedN) }) {
		cancel()
		<-collectDone
		return violation("C15", "output-lost", "", "only %d of %d emitted messages reached the output port, and nothing more has arrived for %v", len(collected), totalOut, 2*c15Guard)
	}
	if !c.Direct {
		time.Sleep(2 * time.Millisecond) // a duplicate of the last message would be right behind it
	}
	cancel()
	<-collectDone
	if c.Direct {
		close(midiEventsIn) // lets the fan-out's delivery goroutine end
	}

	// ---- oracles ----
	next := make([]int, len(c.Emitters))
	if len(collected) > totalOut {
		// which one it is gets reported by the order oracle below, unless it is not even a message of ours
		classify("more messages at the port than were emitted")
	}
	for i, m := range collected {
		if len(m) != 3 || m[0]&0xf0 != 0x90 || int(m[0]&0x0f) >= len(c.Emitters) {
			return violation("C15", "output-corrupted", "", "message %d at the output port is % x, which no emitter sent", i, m)
		}
		e := int(m[0] & 0x0f)
		s := msgSeq(m)
		if s != next[e] {
			return violation("C15", "output-order", "", "emitter %d: message %d arrived at the output port where %d was due (lost, duplicated or reordered)", e, s, next[e])
		}
		next[e]++
	}
	if !c.Direct {
		for e, n := range c.Emitters {
			if next[e] != n {
				return violation("C15", "output-lost", "", "emitter %d: %d of %d messages reached the output port", e, next[e], n)
			}
		}
	}
	for k, cs := range consumers {
		if cs.isDevice {
			continue
		}
		if cs.bad != "" {
			return violation("C15", "input-corrupted", "", "consumer %d %s", k, cs.bad)
		}
		first, last := int64(-1), int64(-1)
		if len(cs.got) > 0 {
			first, last = int64(cs.got[0]), int64(cs.got[len(cs.got)-1])
		}
		// mustEnd: the last message owed to this consumer. Detached by the script: the message before the newest one
		// any consumer had received when DespawnOutput was called (that one had been delivered to every output).
		mustEnd := int64(c.InputN - 1)
		if wasDespawnedEarly(cs, c) {
			mustEnd = cs.seenMax - 1
		}
		for i := 1; i < len(cs.got); i++ {
			if cs.got[i] <= cs.got[i-1] {
				return violation("C15", "input-order", "dup-or-reorder", "consumer %d received %d after %d (duplicated or reordered); its sequence: %v", k, cs.got[i], cs.got[i-1], clipInts(cs.got))
			}
			// gaps are losses — except after the point up to which messages are owed to a consumer that was being removed
			if cs.got[i] != cs.got[i-1]+1 && int64(cs.got[i-1]) < mustEnd {
				return violation("C15", "input-order", "gap", "consumer %d received %d after %d (lost); its sequence: %v", k, cs.got[i], cs.got[i-1], clipInts(cs.got))
			}
		}
		if cs.begunAt <= mustEnd {
			// every message whose send began after SpawnOutput returned, up to the last one that is known to have been
			// delivered to every output before DespawnOutput was called, must be there
			if first == -1 || first > cs.begunAt || last < mustEnd {
				return violation("C15", "input-lost", "", "consumer %d (attached when %d messages had been started, detached after message %d was seen) received %v; messages %d..%d must be included",
					k, cs.begunAt, cs.seenMax, clipInts(cs.got), cs.begunAt, mustEnd)
			}
		}
	}
	*nontrivial = (len(c.Emitters) >= 2 && len(consumers) >= 1) || despawnStalledFull
	classifyIf(despawnStalledFull, "despawn of a consumer that stopped reading")
	classifyIf(c.Direct, "fan-out fed directly")
	classify(fmt.Sprintf("GOMAXPROCS %d", c.Procs))
	_ = live
	return nil
}

// wasDespawnedEarly: the consumer was detached by the script (not by the final wind-down after the
// stream had been delivered).
func wasDespawnedEarly(cs *c15Consumer, c *C15Case) bool {
	return cs.byScript
}

func clipInts(a []int) string {
	if len(a) <= 12 {
		return fmt.Sprint(a)
	}
	return fmt.Sprintf("%v … %v (%d values)", a[:6], a[len(a)-6:], len(a))
}

func genC15(t *rapid.T) C15Case {
	c := C15Case{
		OutCap: rapid.IntRange(0, 8).Draw(t, "outCap"), InCap: rapid.IntRange(0, 8).Draw(t, "inCap"),
		PortOutCap: rapid.IntRange(0, 8).Draw(t, "portOutCap"), PortInCap: rapid.IntRange(0, 8).Draw(t, "portInCap"),
		InputN: rapid.IntRange(0, 400).Draw(t, "inputN"), Procs: rapid.SampledFrom([]int{1, 2, 4, 16}).Draw(t, "procs"),
		Direct: rapid.IntRange(0, 3).Draw(t, "direct") == 0,
	}
	for e := rapid.IntRange(1, 4).Draw(t, "emitters"); e > 0; e-- {
		c.Emitters = append(c.Emitters, rapid.IntRange(0, 300).Draw(t, "perEmitter"))
	}
	n := rapid.IntRange(1, 14).Draw(t, "script")
	spawned := map[int]bool{}
	for i := 0; i < n; i++ {
		k := rapid.IntRange(0, 3).Draw(t, "consumer")
		switch kind := rapid.IntRange(0, 9).Draw(t, "op"); {
		case !spawned[k] || kind < 2:
			spawned[k] = true
			c.Script = append(c.Script, c15Op{Kind: "spawn", Consumer: k, Device: rapid.IntRange(0, 4).Draw(t, "device") == 0})
		case kind < 4:
			c.Script = append(c.Script, c15Op{Kind: "stall", Consumer: k})
		case kind < 5:
			c.Script = append(c.Script, c15Op{Kind: "resume", Consumer: k})
		case kind < 7:
			c.Script = append(c.Script, c15Op{Kind: "despawn", Consumer: k, N: rapid.IntRange(0, 8).Draw(t, "pileUpMs")})
		default:
			c.Script = append(c.Script, c15Op{Kind: "wait", N: rapid.IntRange(1, 60).Draw(t, "waitN")})
		}
	}
	return c
}

func TestC15(t *testing.T) { ReplayOrRapid(t, NewRun(t, "C15"), checkC15, genC15) }

// TestC15LongLived: the same pipeline kept alive for seconds (a transport that is mostly idle, as in real use):
// traffic, a pause of 5.2-7 s (quick) / up to 65 s (thorough), traffic again. Anything the relay or the fan-out does
// on a timer shows up as a message that was never emitted, a duplicate or a gap.
func genC15Long(t *rapid.T) C15Case {
	c := genC15(t)
	if os.Getenv("VERIF_TIER") == "thorough" {
		c.IdleMs = rapid.SampledFrom([]int{5200, 10500, 15500, 31000, 61000, 65000}).Draw(t, "idleMs")
	} else {
		c.IdleMs = rapid.IntRange(5200, 7000).Draw(t, "idleMs")
	}
	// no script step may leave a consumer stalled across the pause: keep attach / detach / wait only
	var script []c15Op
	for _, op := range c.Script {
		if op.Kind != "stall" && op.Kind != "resume" {
			script = append(script, op)
		}
	}
	c.Script = script
	return c
}

func TestC15LongLived(t *testing.T) { ReplayOrRapid(t, NewRun(t, "C15"), checkC15, genC15Long) }

var _ = sync.Mutex{}
