#!/usr/bin/env python3
"""Runs the repository's pinned baseline (guard OFF: plain go test, no tags, no overlay) and
compares with /root/.vp/BASELINE.json's stable_pass list. Exit 0 iff every stable test passes."""
import json, os, subprocess, sys
repo = sys.argv[1] if len(sys.argv) > 1 else "/repo"
env = dict(os.environ, GOFLAGS="-mod=mod", GOPROXY="off", GOSUMDB="off", GOTOOLCHAIN="local")
p = subprocess.run(["go", "test", "-json", "-vet=off", "-count=1", "-timeout", "25m", "./..."], cwd=repo, env=env,
                   stdout=subprocess.PIPE, stderr=subprocess.DEVNULL, text=True)
passed = set()
for line in p.stdout.splitlines():
    try:
        ev = json.loads(line)
    except Exception:
        continue
    if ev.get("Action") == "pass" and ev.get("Test"):
        passed.add("%s::%s" % (ev["Package"], ev["Test"]))
want = json.load(open("/root/.vp/BASELINE.json"))["stable_pass"]
missing = [t for t in want if t not in passed]
print("baseline: %d/%d stable tests pass" % (len(want) - len(missing), len(want)))
for m in missing[:20]:
    print("  MISSING", m)
subprocess.run(["git", "-C", repo, "status", "--short"])
sys.exit(1 if missing else 0)
