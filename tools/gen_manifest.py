#!/usr/bin/env python3
"""Regenerates /verif/MANIFEST.json from props.py (single source of truth for the check table)."""
import json, os, sys
HERE = os.path.dirname(os.path.dirname(os.path.abspath(__file__)))
sys.path.insert(0, HERE)
from props import PROPS, NOT_APPLICABLE, ENGINES  # noqa

checks = []
for pid in sorted(PROPS):
    p = PROPS[pid]
    checks.append({
        "property_id": pid,
        "quick_cmd": "./check %s --tier quick" % pid,
        "thorough_cmd": "./check %s --tier thorough" % pid,
        "evidence_file": "/verif/evidence/%s.json" % pid,
        "replay_cmd_template": "./check %s --replay {path}" % pid,
        "engine": p.get("engine", "harness"),
        "level_claimed": {"category": p["level"], "text": p["level_text"], "design_ref": p.get("design_ref", "DESIGN.md §4 " + pid)},
        "level_note": p["level_note"],
        "technique": p["technique"],
    })
manifest = {
    "version": 1,
    "setup_cmd": "./check --setup",
    "hooks": {
        "guard": "verif",
        "enable": "go test -tags verif -overlay /verif/build/overlay-repo.json (files under /verif/overlay are injected at build time; nothing is committed to /repo)",
        "baseline_off_cmd": "cd /repo && GOFLAGS=-mod=mod GOPROXY=off GOSUMDB=off go test -json -vet=off -count=1 -timeout 25m ./...",
        "source_commits": [],
        "add_only": True,
    },
    "engines": ENGINES,
    "checks": checks,
    "not_applicable": NOT_APPLICABLE,
    "notes": "All checks are property-based tests / fuzzing (pgregory.net/rapid v1.3.0, bounded exhaustive generators, go native fuzzing in thorough tiers) run by ./check; see DESIGN.md. tools/baseline.py runs the pinned suite with the guard off.",
}
with open(os.path.join(HERE, "MANIFEST.json"), "w") as f:
    json.dump(manifest, f, indent=1)
    f.write("\n")
print("MANIFEST.json: %d checks, %d not applicable" % (len(checks), len(NOT_APPLICABLE)))
