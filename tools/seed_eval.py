#!/usr/bin/env python3
"""Confirms a seeded change delivered by a sub-agent and runs the checks against it.

  tools/seed_eval.py <src_dir> <seed_id> [extra props ...]

<src_dir> holds patch.diff, meta.json and the demonstration file (as written by the sub-agent).
Steps, all in a scratch worktree under /tmp (removed afterwards):
  1. demo passes on the unchanged tree;  2. patch applies and builds;  3. the pinned baseline still passes;
  4. demo fails with the patch;  5. ./check <property> (quick tier) with VERIF_REPO=<worktree>.
On success the change is stored as /verif/seeded/<seed_id>/ (patch.diff, demo, meta.json incl. what was run)."""
import json
import re
import os
import shutil
import subprocess
import sys
import time

HERE = os.path.dirname(os.path.dirname(os.path.abspath(__file__)))
ENV = dict(os.environ, GOFLAGS="-mod=mod", GOPROXY="off", GOSUMDB="off", GOTOOLCHAIN="local")


def run(cmd, **kw):
    return subprocess.run(cmd, stdout=subprocess.PIPE, stderr=subprocess.STDOUT, text=True, errors="replace", **kw)


def main():
    src, sid = sys.argv[1], sys.argv[2]
    extra = sys.argv[3:]
    meta = json.load(open(os.path.join(src, "meta.json")))
    prop = meta["property"]
    wt = "/tmp/seedchk-" + sid
    run(["git", "-C", "/repo", "worktree", "remove", "--force", wt])
    shutil.rmtree(wt, ignore_errors=True)
    p = run(["git", "-C", "/repo", "worktree", "add", "--detach", wt, "HEAD"])
    if p.returncode != 0:
        print(p.stdout)
        return 2
    log = []
    ok = True
    try:
        demo_src = os.path.join(src, meta["demo_file"])
        demo_dst = os.path.join(wt, meta["demo_dest"])
        if os.path.isdir(demo_dst) or meta["demo_dest"].endswith("/"):
            demo_dst = os.path.join(demo_dst, os.path.basename(meta["demo_file"]))
        os.makedirs(os.path.dirname(demo_dst), exist_ok=True)
        shutil.copy(demo_src, demo_dst)
        cmd = re.sub(r"/tmp/seed/(R\d+)?" + prop + r"\b", wt, meta["demo_cmd"])
        r = run(["bash", "-c", cmd], cwd=wt, env=ENV)
        log.append("demo on unchanged tree: exit %d" % r.returncode)
        if r.returncode != 0:
            ok = False
            print("DEMO FAILS ON UNCHANGED TREE\n" + r.stdout[-2000:])
        os.remove(demo_dst)
        r = run(["git", "apply", os.path.join(os.path.abspath(src), "patch.diff")], cwd=wt)
        log.append("git apply: exit %d" % r.returncode)
        if r.returncode != 0:
            print("PATCH DOES NOT APPLY\n" + r.stdout)
            return 1
        r = run([os.path.join(HERE, "tools/baseline.py"), wt], env=ENV)
        log.append("baseline with the change: " + r.stdout.splitlines()[0] if r.stdout else "baseline: no output")
        if r.returncode != 0:
            ok = False
            print("BASELINE BROKEN BY THE CHANGE\n" + r.stdout[-1500:])
        shutil.copy(demo_src, demo_dst)
        r = run(["bash", "-c", cmd], cwd=wt, env=ENV)
        log.append("demo with the change: exit %d" % r.returncode)
        if r.returncode == 0:
            ok = False
            print("DEMO PASSES WITH THE CHANGE")
        os.remove(demo_dst)
        results = {}
        for pr in [prop] + extra:
            t0 = time.time()
            r = run([os.path.join(HERE, "check"), pr], cwd=HERE, env=dict(ENV, VERIF_REPO=wt))
            first = [l.strip() for l in r.stdout.splitlines() if l.startswith("  " + pr)][:1]
            verdict = "caught" if r.returncode == 1 else ("MISSED" if r.returncode == 0 else "ERROR rc=%d" % r.returncode)
            results[pr] = {"verdict": verdict, "seconds": round(time.time() - t0), "first_violation": first[0][:400] if first else ""}
            log.append("./check %s (quick, VERIF_REPO=scratch worktree): %s" % (pr, verdict))
            print("%-8s %-4s %s (%ds) %s" % (sid, pr, verdict, time.time() - t0, first[0][:200] if first else ""))
            if r.returncode not in (0, 1):
                print(r.stdout[-2500:])
        if ok:
            dst = os.path.join(HERE, "seeded", sid)
            os.makedirs(dst, exist_ok=True)
            shutil.copy(os.path.join(src, "patch.diff"), os.path.join(dst, "patch.diff"))
            shutil.copy(demo_src, os.path.join(dst, os.path.basename(demo_src) + ".txt"))
            out = {"id": sid, "property": prop, "summary": meta.get("summary"), "needs": meta.get("needs"),
                   "demo_file": os.path.basename(demo_src) + ".txt", "demo_dest": meta["demo_dest"], "demo_cmd": meta["demo_cmd"],
                   "source": "independent sub-agent given only the property text and a scratch worktree",
                   "confirmed": log, "checks": results}
            json.dump(out, open(os.path.join(dst, "meta.json"), "w"), indent=1)
        else:
            print("NOT KEPT (confirmation failed): %s" % log)
    finally:
        run(["git", "-C", "/repo", "worktree", "remove", "--force", wt])
        shutil.rmtree(wt, ignore_errors=True)
        import hashlib
        tag = "alt" + hashlib.sha1(wt.encode()).hexdigest()[:8]
        shutil.rmtree(os.path.join(HERE, "build", "bin-" + tag), ignore_errors=True)
        shutil.rmtree(os.path.join(HERE, "build", "out-" + tag), ignore_errors=True)
        run(["git", "-C", "/repo", "worktree", "prune"])
    return 0 if ok else 1


if __name__ == "__main__":
    sys.exit(main())
