#!/bin/bash
# Runs every check of one tier in sequence; prints the summary line of each. Usage: tools/run_all.sh [quick|thorough] [ids...]
cd "$(dirname "$0")/.."
tier=${1:-quick}; shift
ids=${@:-$(python3 -c "import props; print(' '.join(sorted(props.PROPS)))")}
rc=0
for p in $ids; do
  out=$(./check $p --tier $tier 2>&1); r=$?
  echo "$out" | grep -E "^(VIOLATION|KNOWN-FINDING|HARNESS-ERROR|BUILD-FAILED)" | head -5
  echo "$out" | tail -1
  [ $r -ne 0 ] && rc=$r
done
exit $rc
