// mutgen lists first-order syntactic mutants of one Go source file as JSON lines
// {id, file, line, op, desc, start, end, repl}: replacing bytes [start,end) of the original file by repl gives the mutant.
// Standard library only. Usage: go run ./tools/mutgen <root> <relative/file.go>
package main

import (
	"encoding/json"
	"fmt"
	"go/ast"
	"go/parser"
	"go/token"
	"os"
	"path/filepath"
	"strconv"
	"strings"
)

type mutant struct {
	ID    string `json:"id"`
	File  string `json:"file"`
	Line  int    `json:"line"`
	Op    string `json:"op"`
	Desc  string `json:"desc"`
	Start int    `json:"start"`
	End   int    `json:"end"`
	Repl  string `json:"repl"`
	Func  string `json:"func"`
}

var binOps = map[token.Token][]string{
	token.LSS: {"<=", ">="}, token.LEQ: {"<", ">"}, token.GTR: {">=", "<="}, token.GEQ: {">", "<"},
	token.EQL: {"!="}, token.NEQ: {"=="}, token.LAND: {"||"}, token.LOR: {"&&"},
	token.ADD: {"-"}, token.SUB: {"+"}, token.MUL: {"/"}, token.QUO: {"*"}, token.REM: {"/"},
	token.AND: {"|"}, token.OR: {"&"}, token.SHL: {">>"}, token.SHR: {"<<"},
}

var assignOps = map[token.Token]string{
	token.ADD_ASSIGN: "-=", token.SUB_ASSIGN: "+=", token.OR_ASSIGN: "&=", token.AND_ASSIGN: "|=",
}

// identifier parts that have a natural sibling; the compiler weeds out names that do not exist
var namePairs = [][2]string{
	{"Neg", ""}, {"Negative", ""}, {"Up", "Down"}, {"Down", "Up"}, {"Minimum", "Maximum"}, {"Maximum", "Minimum"},
	{"Min", "Max"}, {"Max", "Min"}, {"Factory", "User"}, {"User", "Factory"}, {"Keyboard", "Gamepad"}, {"Gamepad", "Keyboard"},
	{"NoteOn", "NoteOff"}, {"NoteOff", "NoteOn"}, {"Octave", "Semitone"}, {"Semitone", "Octave"}, {"Lock", "RLock"},
	{"CC", "CCNeg"}, {"Note", "NoteNeg"}, {"Action", "ActionNeg"}, {"ChannelOffset", "ChannelOffsetNeg"},
	{"Black", "White"}, {"White", "Black"}, {"HasPrefix", "HasSuffix"}, {"HasSuffix", "HasPrefix"}, {"Interrupt", "Retrigger"},
	{"Retrigger", "NoRepeat"}, {"NoRepeat", "Off"},
}

func callName(e ast.Expr) (string, string) {
	c, ok := e.(*ast.CallExpr)
	if !ok {
		return "", ""
	}
	sel, ok := c.Fun.(*ast.SelectorExpr)
	if !ok {
		return "", ""
	}
	id, ok := sel.X.(*ast.Ident)
	if !ok {
		return "", sel.Sel.Name
	}
	return id.Name, sel.Sel.Name
}

func isLogCall(e ast.Expr) bool {
	pkg, fn := callName(e)
	return pkg == "log" || (pkg == "fmt" && strings.HasPrefix(fn, "Print"))
}

// calls whose arguments are texts for people
func isMessageCall(e ast.Expr) bool {
	pkg, fn := callName(e)
	return (pkg == "fmt" && (fn == "Errorf" || fn == "Sprintf")) || (pkg == "errors" && fn == "New")
}

func main() {
	root, rel := os.Args[1], os.Args[2]
	path := filepath.Join(root, rel)
	src, err := os.ReadFile(path)
	if err != nil {
		fmt.Fprintln(os.Stderr, err)
		os.Exit(2)
	}
	fset := token.NewFileSet()
	f, err := parser.ParseFile(fset, path, src, parser.ParseComments)
	if err != nil {
		fmt.Fprintln(os.Stderr, err)
		os.Exit(2)
	}
	var out []mutant
	curFunc := ""
	off := func(p token.Pos) int { return fset.Position(p).Offset }
	add := func(pos, end token.Pos, op, repl string) {
		s, e := off(pos), off(end)
		orig := string(src[s:e])
		if len(orig) > 60 {
			orig = orig[:57] + "..."
		}
		r := repl
		if len(r) > 60 {
			r = r[:57] + "..."
		}
		out = append(out, mutant{File: rel, Line: fset.Position(pos).Line, Op: op, Start: s, End: e, Repl: repl, Func: curFunc,
			Desc: fmt.Sprintf("%s -> %s", strings.ReplaceAll(orig, "\n", " "), strings.ReplaceAll(r, "\n", " "))})
	}
	deletable := func(st ast.Stmt) bool {
		switch s := st.(type) {
		case *ast.ExprStmt, *ast.IncDecStmt, *ast.SendStmt, *ast.DeferStmt, *ast.GoStmt:
			return true
		case *ast.AssignStmt:
			return s.Tok != token.DEFINE
		case *ast.ReturnStmt:
			return len(s.Results) == 0
		case *ast.BranchStmt:
			return s.Tok == token.BREAK || s.Tok == token.CONTINUE
		}
		return false
	}
	stmts := func(list []ast.Stmt) {
		for _, st := range list {
			if es, ok := st.(*ast.ExprStmt); ok && isLogCall(es.X) {
				continue
			}
			if deletable(st) {
				add(st.Pos(), st.End(), "delete-stmt", "{}")
			}
		}
	}
	for _, decl := range f.Decls {
		fd, ok := decl.(*ast.FuncDecl)
		if ok {
			curFunc = fd.Name.Name
		} else {
			curFunc = ""
		}
		ast.Inspect(decl, func(n ast.Node) bool {
			switch x := n.(type) {
			case *ast.ImportSpec:
				return false
			case *ast.ExprStmt:
				if isLogCall(x.X) {
					return false
				}
			case *ast.Field:
				if x.Tag != nil { // struct tags are not code
					return true
				}
			case *ast.BinaryExpr:
				for _, r := range binOps[x.Op] {
					add(x.OpPos, x.OpPos+token.Pos(len(x.Op.String())), "binop", r)
				}
			case *ast.UnaryExpr:
				if x.Op == token.NOT || x.Op == token.SUB {
					add(x.OpPos, x.OpPos+1, "unary-drop", "")
				}
			case *ast.IncDecStmt:
				r := "--"
				if x.Tok == token.DEC {
					r = "++"
				}
				add(x.TokPos, x.TokPos+2, "incdec", r)
			case *ast.AssignStmt:
				if r, ok := assignOps[x.Tok]; ok {
					add(x.TokPos, x.TokPos+token.Pos(len(x.Tok.String())), "assignop", r)
				}
			case *ast.BasicLit:
				switch x.Kind {
				case token.INT:
					v, err := strconv.ParseInt(x.Value, 0, 64)
					if err == nil && v < 1<<31 {
						add(x.Pos(), x.End(), "int+1", strconv.FormatInt(v+1, 10))
						if v > 0 {
							add(x.Pos(), x.End(), "int-1", strconv.FormatInt(v-1, 10))
						}
					}
				case token.FLOAT:
					v, err := strconv.ParseFloat(x.Value, 64)
					if err == nil {
						add(x.Pos(), x.End(), "float+", strconv.FormatFloat(v+0.03, 'f', -1, 64))
						add(x.Pos(), x.End(), "float-", strconv.FormatFloat(v-0.03, 'f', -1, 64))
					}
				case token.STRING:
					if len(x.Value) > 2 && x.Value[0] == '"' && !strings.Contains(x.Value, "%") && len(x.Value) < 24 {
						add(x.Pos(), x.End(), "string", x.Value[:len(x.Value)-1]+"_\"")
					}
				}
			case *ast.Ident:
				if x.Name == "true" {
					add(x.Pos(), x.End(), "bool", "false")
				} else if x.Name == "false" {
					add(x.Pos(), x.End(), "bool", "true")
				}
			case *ast.SelectorExpr:
				name := x.Sel.Name
				seen := map[string]bool{}
				for _, p := range namePairs {
					var alt string
					if p[1] == "" {
						if strings.HasSuffix(name, p[0]) {
							alt = strings.TrimSuffix(name, p[0])
						}
					} else if strings.Contains(name, p[0]) && !(strings.Contains(p[1], p[0]) && strings.Contains(name, p[1])) {
						alt = strings.Replace(name, p[0], p[1], 1)
					}
					if alt != "" && alt != name && !seen[alt] {
						seen[alt] = true
						add(x.Sel.Pos(), x.Sel.End(), "sibling", alt)
					}
				}
			case *ast.IfStmt:
				if c := string(src[off(x.Cond.Pos()):off(x.Cond.End())]); strings.Contains(c, "noLogs") {
					return false // logging only
				}
				add(x.Cond.Pos(), x.Cond.End(), "if-true", "true")
				add(x.Cond.Pos(), x.Cond.End(), "if-false", "false")
			case *ast.BlockStmt:
				stmts(x.List)
			case *ast.CaseClause:
				stmts(x.Body)
			case *ast.CommClause:
				stmts(x.Body)
			case *ast.CallExpr:
				if isLogCall(x) || isMessageCall(x) {
					return false
				}
				// swap the first two arguments when there are exactly two or three (the type checker weeds out most)
				if len(x.Args) >= 2 && len(x.Args) <= 4 {
					a, b := x.Args[0], x.Args[1]
					sa, sb := string(src[off(a.Pos()):off(a.End())]), string(src[off(b.Pos()):off(b.End())])
					if sa != sb {
						add(a.Pos(), b.End(), "swap-args", sb+string(src[off(a.End()):off(b.Pos())])+sa)
					}
				}
			}
			return true
		})
	}
	enc := json.NewEncoder(os.Stdout)
	for i := range out {
		out[i].ID = fmt.Sprintf("%s:%d:%s:%d", filepath.Base(rel), out[i].Line, out[i].Op, i)
		enc.Encode(out[i])
	}
}
