#!/opt/veriftools/pyvenv/bin/python
"""Validates MANIFEST.json and every evidence file against the schemas in /root/.vp."""
import json, glob, sys, jsonschema
ok = True
def chk(path, schema):
    global ok
    try:
        jsonschema.validate(json.load(open(path)), json.load(open(schema)))
        print("valid  ", path)
    except Exception as e:
        ok = False
        print("INVALID", path, str(e).splitlines()[0])
chk("/verif/MANIFEST.json", "/root/.vp/MANIFEST.schema.json")
for f in sorted(glob.glob("/verif/evidence/*.json")):
    chk(f, "/root/.vp/EVIDENCE.schema.json")
sys.exit(0 if ok else 1)
