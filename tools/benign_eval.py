#!/usr/bin/env python3
"""False-alarm test of the checks: a property-PRESERVING change delivered by a sub-agent (it changes behaviour the statement leaves
open) is applied to a scratch worktree and the checks of its property must stay silent.

  tools/benign_eval.py <src_dir> <id-prefix> [extra props ...]

<src_dir> holds meta.json {"property", "changes": [{"patch", "summary", "observable", "why_holds"}, ...]} and the patches.
Per change: patch applies and builds, the pinned baseline passes, ./check <property> (quick tier, VERIF_REPO=<worktree>) at two
VERIF_SEED values. The change is stored as /verif/benign/<id-prefix>-<k>/ (patch.diff, meta.json incl. verdicts). An alarm is
NOT a verdict about the check yet: either the change does break the property (the author was wrong) or the check demands too
much - that is decided by hand and written into meta.json's "disposition"."""
import hashlib
import json
import os
import shutil
import subprocess
import sys
import time

HERE = os.path.dirname(os.path.dirname(os.path.abspath(__file__)))
ENV = dict(os.environ, GOFLAGS="-mod=mod", GOPROXY="off", GOSUMDB="off", GOTOOLCHAIN="local")


def run(cmd, **kw):
    return subprocess.run(cmd, stdout=subprocess.PIPE, stderr=subprocess.STDOUT, text=True, errors="replace", **kw)


def main():
    src, pref = os.path.abspath(sys.argv[1]), sys.argv[2]
    extra = sys.argv[3:]
    meta = json.load(open(os.path.join(src, "meta.json")))
    prop = meta["property"]
    wt = "/tmp/benchk-" + pref
    rc = 0
    for k, ch in enumerate(meta["changes"], 1):
        sid = "%s-%d" % (pref, k)
        run(["git", "-C", "/repo", "worktree", "remove", "--force", wt])
        shutil.rmtree(wt, ignore_errors=True)
        p = run(["git", "-C", "/repo", "worktree", "add", "--detach", wt, "HEAD"])
        if p.returncode != 0:
            print(p.stdout)
            return 2
        try:
            log = []
            r = run(["git", "apply", os.path.join(src, ch["patch"])], cwd=wt)
            if r.returncode != 0:
                print("%-10s PATCH DOES NOT APPLY %s" % (sid, r.stdout[:300]))
                continue
            r = run([os.path.join(HERE, "tools/baseline.py"), wt], env=ENV)
            log.append("baseline with the change: " + (r.stdout.splitlines()[0] if r.stdout else "no output"))
            if r.returncode != 0:
                print("%-10s BASELINE BROKEN: not kept\n%s" % (sid, r.stdout[-800:]))
                continue
            results = {}
            for pr in [prop] + extra:
                for seed in ("1", "2"):
                    t0 = time.time()
                    r = run([os.path.join(HERE, "check"), pr], cwd=HERE, env=dict(ENV, VERIF_REPO=wt, VERIF_SEED=seed))
                    first = [l.strip() for l in r.stdout.splitlines() if l.startswith("  " + pr)][:3]
                    verdict = "ALARM" if r.returncode == 1 else ("silent" if r.returncode == 0 else "ERROR rc=%d" % r.returncode)
                    results["%s@%s" % (pr, seed)] = {"verdict": verdict, "seconds": round(time.time() - t0), "first": [f[:400] for f in first]}
                    print("%-10s %-4s seed=%s %s (%ds) %s" % (sid, pr, seed, verdict, time.time() - t0, first[0][:220] if first else ""), flush=True)
                    if r.returncode not in (0, 1):
                        print(r.stdout[-1500:])
                    if r.returncode != 0:
                        rc = 1
                        break
            dst = os.path.join(HERE, "benign", sid)
            os.makedirs(dst, exist_ok=True)
            shutil.copy(os.path.join(src, ch["patch"]), os.path.join(dst, "patch.diff"))
            old = {}
            if os.path.exists(os.path.join(dst, "meta.json")):
                old = json.load(open(os.path.join(dst, "meta.json")))
            out = {"id": sid, "property": prop, "summary": ch.get("summary"), "observable": ch.get("observable"), "why_holds": ch.get("why_holds"),
                   "source": "independent sub-agent given only the property text and a scratch worktree, asked for a change that keeps the property",
                   "confirmed": log, "checks": results, "disposition": old.get("disposition", "")}
            json.dump(out, open(os.path.join(dst, "meta.json"), "w"), indent=1)
        finally:
            run(["git", "-C", "/repo", "worktree", "remove", "--force", wt])
            shutil.rmtree(wt, ignore_errors=True)
            tag = "alt" + hashlib.sha1(wt.encode()).hexdigest()[:8]
            shutil.rmtree(os.path.join(HERE, "build", "bin-" + tag), ignore_errors=True)
            shutil.rmtree(os.path.join(HERE, "build", "out-" + tag), ignore_errors=True)
            run(["git", "-C", "/repo", "worktree", "prune"])
    return rc


if __name__ == "__main__":
    sys.exit(main())
