#!/usr/bin/env python3
"""Sensitivity testing: applies hand-written mutants (textual replacements) to a scratch worktree of /repo
under /tmp and runs the named checks against it with VERIF_REPO. A check that stays green against its
mutants is decoration. Usage: tools/mutants.py [name-substring ...]   (no args: all)

Each mutant: (name, file, old, new, [properties expected to report a violation])."""
import os
import shutil
import subprocess
import sys
import time

HERE = os.path.dirname(os.path.dirname(os.path.abspath(__file__)))
DEV = "internal/pkg/midi/device/device.go"
EVS = "internal/pkg/midi/device/events.go"
PARSER = "internal/pkg/midi/device/config/parser.go"
MIDIEV = "internal/pkg/midi/event.go"

MUTANTS = [
    ("c01-drop-unmapped-release", EVS,
     "\t\t\t_, ok := d.noteTracker[ie.Event.Code]\n\t\t\tif ok {", "\t\t\t_, ok := d.noteTracker[ie.Event.Code]\n\t\t\tif ok && false {", ["C01", "C02"]),
    ("c01-skip-analog-cleanup", EVS,
     "\tfor identifier := range d.analogNoteTracker {\n\t\td.AnalogNoteOff(identifier, &input.InputEvent{})\n\t}", "", ["C01"]),
    ("c01-skip-key-cleanup-managed", EVS,
     "\tfor evcode := range d.noteTracker {", "\tfor evcode := range d.noteTracker {\n\t\tif d.config.CollisionMode == config.CollisionRetrigger {\n\t\t\tbreak\n\t\t}", ["C01"]),
    ("c01-analog-stuck-on-mapping-switch", EVS, "\tif !analogOk || analog.MappingType != config.AnalogKeySim {", "\tif false {", ["C01"]),
    ("c02-tracker-stores-base-channel", DEV,
     "d.noteTracker[ev.Event.Code] = [2]byte{note, channel}\n\td.activeNotesCounter[channel][note]++",
     "d.noteTracker[ev.Event.Code] = [2]byte{note, d.channel}\n\td.activeNotesCounter[channel][note]++", ["C02", "C01", "C03"]),
    ("c02-mapping-up-emits-cc", DEV,
     "func (d *Device) MappingUp() {\n", "func (d *Device) MappingUp() {\n\td.outputEvents <- midi.ControlChangeEvent(d.channel, 0, byte(d.mapping))\n", ["C02"]),
    ("c03-last-holder-test", DEV, "if d.activeNotesCounter[channel][note] != 1 {", "if d.activeNotesCounter[channel][note] > 1 {", []),
    ("c03-norepeat-second-holder", DEV,
     "\tcase config.CollisionNoRepeat:\n\t\tif d.activeNotesCounter[channel][note] > 0 {", "\tcase config.CollisionNoRepeat:\n\t\tif d.activeNotesCounter[channel][note] > 1 {", ["C03"]),
    ("c03-retrigger-like-norepeat", DEV,
     "\tcase config.CollisionOff, config.CollisionRetrigger:\n\t\tevent = midi.NoteEvent(midi.NoteOn, channel, note, d.velocity)",
     "\tcase config.CollisionOff, config.CollisionRetrigger:\n\t\tif d.config.CollisionMode == config.CollisionRetrigger && d.activeNotesCounter[channel][note] > 2 {\n\t\t\tbreak\n\t\t}\n\t\tevent = midi.NoteEvent(midi.NoteOn, channel, note, d.velocity)",
     ["C03"]),
    ("c03-interrupt-no-off", DEV,
     "\tcase config.CollisionInterrupt:\n\t\tif d.activeNotesCounter[channel][note] > 0 {", "\tcase config.CollisionInterrupt:\n\t\tif d.activeNotesCounter[channel][note] > 1 {", ["C03"]),
    ("c04-mod-15", DEV, "\tchannel := (d.channel + key.ChannelOffset) % 16\n\n\tvar event midi.Event", "\tchannel := (d.channel + key.ChannelOffset) % 15\n\n\tvar event midi.Event", ["C04"]),
    ("c04-channel-saturates-early", DEV, "\tif d.channel != 15 {\n\t\td.channel++", "\tif d.channel < 14 {\n\t\td.channel++", ["C04"]),
    ("c04-octave-reset-to-default", DEV, "func (d *Device) OctaveReset() {\n\td.octave = 0", "func (d *Device) OctaveReset() {\n\td.octave = int(d.config.Defaults.Octave)", ["C04"]),
    ("c04-int8-octave", DEV, "noteCalculatored := int(note) + int(d.octave)*12 + int(d.semitone)\n\tif noteCalculatored < 0 || noteCalculatored > 127 {\n\t\treturn\n\t}\n\tnote = uint8(noteCalculatored)\n\tchannel",
     "noteCalculatored := int(note) + int(d.octave*12) + int(d.semitone)\n\tif noteCalculatored < 0 || noteCalculatored > 127 {\n\t\treturn\n\t}\n\tnote = uint8(noteCalculatored)\n\tchannel", ["C04"]),
    ("c13-panic-clears-tracker", DEV, "func (d *Device) Panic() {\n", "func (d *Device) Panic() {\n\td.noteTracker = make(map[keyID][2]byte, 32)\n", ["C13"]),
    ("c13-panic-channel-1", DEV, "d.outputEvents <- midi.NoteEvent(midi.NoteOff, d.channel, note, 0)\n\t}\n\tif !d.noLogs {\n\t\tlog.Info(\"Panic!\"",
     "d.outputEvents <- midi.NoteEvent(midi.NoteOff, 0, note, 0)\n\t}\n\tif !d.noLogs {\n\t\tlog.Info(\"Panic!\"", ["C13"]),
    ("c13-panic-127-notes", DEV, "for note := uint8(0); note < 128; note++ {\n\t\td.outputEvents <- midi.NoteEvent(midi.NoteOff, d.channel",
     "for note := uint8(0); note < 127; note++ {\n\t\td.outputEvents <- midi.NoteEvent(midi.NoteOff, d.channel", ["C13"]),
    ("c13-panic-resets-counters", DEV, "func (d *Device) Panic() {\n",
     "func (d *Device) Panic() {\n\tfor ch := range d.activeNotesCounter {\n\t\tfor n := range d.activeNotesCounter[ch] {\n\t\t\td.activeNotesCounter[ch][n] = 0\n\t\t}\n\t}\n", ["C13"]),
    ("c06-scale-128", EVS, "d.outputEvents <- midi.ControlChangeEvent(channel, analog.CC, byte(int(float64(127)*adjustedValue)))\n\t\tcase !canBeNegative && analog.Bidirectional:",
     "d.outputEvents <- midi.ControlChangeEvent(channel, analog.CC, byte(int(float64(128)*adjustedValue)))\n\t\tcase !canBeNegative && analog.Bidirectional:", ["C06", "C05"]),
    ("c06-deadzone-ge", EVS, "\t\tif value < deadzone {\n\t\t\tvalue = 0", "\t\tif value <= deadzone+0.02 {\n\t\t\tvalue = 0", ["C06"]),
    ("c06-forget-flip-centred", EVS, "\t\tif canBeNegative {\n\t\t\tvalue = -value", "\t\tif canBeNegative && !analog.DeadzoneAtCenter {\n\t\t\tvalue = -value", ["C06"]),
    ("c06-reciprocal", EVS, "value = (value - deadzone) / (1.0 - deadzone)", "value = (value - deadzone) * (1.0 / (1.0 - deadzone))", ["C06"]),
    ("c06-bend-8191", MIDIEV, "target = 8192 + int(val*8191)", "target = 8191 + int(val*8192)", ["C06"]),
    ("c06-dedupe-on-raw-sign", EVS, "\tif lastValue == value {\n\t\treturn\n\t}", "\tif lastValue == value || (lastValue > 0.9 && value > 0.9) {\n\t\treturn\n\t}", ["C06"]),
    ("c06-specific-deadzone-ignored", EVS, "\tdeadzone, ok := d.config.KeyMappings[d.mapping].Deadzones[ie.Source.Name][ie.Event.Code]\n\tif !ok {",
     "\tdeadzone, ok := d.config.KeyMappings[d.mapping].Deadzones[ie.Source.Name][ie.Event.Code]\n\tif !ok || deadzone == 0.25 {", ["C06"]),
    ("c07-shared-zero-flag", EVS, "\t\t\t\td.outputEvents <- midi.ControlChangeEvent(channel, analog.CC, byte(int(float64(127)*adjustedValue)))\n\t\t\t\tif !d.ccZeroed[analog.CCNeg] {\n\t\t\t\t\td.outputEvents <- midi.ControlChangeEvent(channelNeg, analog.CCNeg, 0)\n\t\t\t\t\td.ccZeroed[analog.CCNeg] = true\n\t\t\t\t}\n\t\t\t\td.ccZeroed[analog.CC] = false\n\t\t\t}\n\t\tcase canBeNegative && !analog.Bidirectional:",
     "\t\t\t\td.outputEvents <- midi.ControlChangeEvent(channel, analog.CC, byte(int(float64(127)*adjustedValue)))\n\t\t\t\tif !d.ccZeroed[analog.CC] {\n\t\t\t\t\td.outputEvents <- midi.ControlChangeEvent(channelNeg, analog.CCNeg, 0)\n\t\t\t\t\td.ccZeroed[analog.CC] = true\n\t\t\t\t}\n\t\t\t\td.ccZeroed[analog.CC] = false\n\t\t\t}\n\t\tcase canBeNegative && !analog.Bidirectional:", ["C07"]),
    ("c07-never-rearm", EVS, "\t\t\t\td.ccZeroed[analog.CCNeg] = false\n\t\t\t} else {\n\t\t\t\td.outputEvents <- midi.ControlChangeEvent(channel, analog.CC, byte(int(float64(127)*adjustedValue)))\n\t\t\t\tif !d.ccZeroed[analog.CCNeg] {\n\t\t\t\t\td.outputEvents <- midi.ControlChangeEvent(channelNeg, analog.CCNeg, 0)\n\t\t\t\t\td.ccZeroed[analog.CCNeg] = true\n\t\t\t\t}\n\t\t\t\td.ccZeroed[analog.CC] = false\n\t\t\t}\n\t\tcase canBeNegative && !analog.Bidirectional:",
     "\t\t\t} else {\n\t\t\t\td.outputEvents <- midi.ControlChangeEvent(channel, analog.CC, byte(int(float64(127)*adjustedValue)))\n\t\t\t\tif !d.ccZeroed[analog.CCNeg] {\n\t\t\t\t\td.outputEvents <- midi.ControlChangeEvent(channelNeg, analog.CCNeg, 0)\n\t\t\t\t\td.ccZeroed[analog.CCNeg] = true\n\t\t\t\t}\n\t\t\t\td.ccZeroed[analog.CC] = false\n\t\t\t}\n\t\tcase canBeNegative && !analog.Bidirectional:", ["C07"]),
    ("c07-learning-threshold", EVS, "if d.ccLearning && !(value < -0.5 || value > 0.5) {", "if d.ccLearning && !(value < -0.5 || value > 0.3) {", ["C07"]),
    ("c01-notetracker-by-code-only", DEV, "\treturn keyID{subHandler: ev.Source.Name, event: ev.Source.DeviceInfo.Event(), code: ev.Event.Code}", "\treturn keyID{code: ev.Event.Code}", ["C01", "C02", "C03"]),
    ("c01-notetracker-by-subhandler-name", DEV, "\treturn keyID{subHandler: ev.Source.Name, event: ev.Source.DeviceInfo.Event(), code: ev.Event.Code}", "\treturn keyID{subHandler: ev.Source.Name, code: ev.Event.Code}", ["C01", "C02", "C03"]),
    ("c01-learning-filter-all-axis-types", EVS, " &&\n\t\t(analog.MappingType == config.AnalogCC || analog.MappingType == config.AnalogPitchBend) {", " {", ["C01"]),
    ("c16-no-watchdog-for-mute-server", "internal/pkg/midi/device/open_rgb.go", "\t\tcase <-time.After(time.Millisecond * 500):\n\t\t\tc.Close()", "\t\tcase <-time.After(time.Hour):\n\t\t\tc.Close()", ["C16"]),
    ("c08-first-event-deduped", EVS, "\tif seen && lastValue == value {", "\tif (seen || !seen) && lastValue == value {", ["C08", "C06"]),
    ("c08-opposite-band-not-released", EVS, "\t\tif value < 0.49 {\n\t\t\td.AnalogNoteOff(identifier, ie)\n\t\t}\n\t\tif value > -0.49 {\n\t\t\td.AnalogNoteOff(identifierNeg, ie)\n\t\t}",
     "\t\tif value < 0.49 && value > -0.5 {\n\t\t\td.AnalogNoteOff(identifier, ie)\n\t\t}\n\t\tif value > -0.49 && value < 0.5 {\n\t\t\td.AnalogNoteOff(identifierNeg, ie)\n\t\t}\n\t\tif value <= -0.5 {\n\t\t\tdefer d.AnalogNoteOff(identifier, ie)\n\t\t}\n\t\tif value >= 0.5 {\n\t\t\tdefer d.AnalogNoteOff(identifierNeg, ie)\n\t\t}", ["C08"]),
    ("c07-repeat-value-stored-before-learning-filter", EVS, "\tshapedValue := value\n", "\tshapedValue := value\n\td.lastAnalogValue[identifier] = shapedValue\n", ["C07"]),
    ("c20-id-of-first-discovered-handler", "internal/pkg/input/device.go", "\t\tsort.SliceStable(dis, func(i, j int) bool {", "\t\tsort.SliceStable(append([]DeviceInfo{}, dis...), func(i, j int) bool {", ["C20"]),
    ("c13-panic-swallowed-by-held-pair", EVS, "\t\t\tif action == config.Panic || !d.checkDoubleActions() {", "\t\t\tif !d.checkDoubleActions() {", ["C13"]),
    ("c19-watcher-errors-not-read", "internal/pkg/midi/device/config/monitor.go", "\t\t\tcase err, ok := <-watcher.Errors:", "\t\t\tcase err, ok := <-make(chan error):", ["C19"]),
    ("c19-overflow-only-logged", "internal/pkg/midi/device/config/monitor.go", "\t\t\t\tif errors.Is(err, fsnotify.ErrEventOverflow) {", "\t\t\t\tif false && errors.Is(err, fsnotify.ErrEventOverflow) {", ["C19"]),
    ("c18-changed-factory-file-rewritten-in-place", "cmd/hidi/config.go", "\t\tif err := os.Remove(path); err != nil {", "\t\tif err := error(nil); err != nil {", ["C18"]),
    ("c16-led-frame-sent-under-the-event-mutex", "internal/pkg/midi/device/open_rgb.go", "\t\td.eventProcessMutex.Unlock()\n\n\t\tserverCall(func() { err = c.UpdateLEDs(index, ledArray) })", "\t\tserverCall(func() { err = c.UpdateLEDs(index, ledArray) })\n\t\td.eventProcessMutex.Unlock()", ["C16"]),
    ("c17-watchdog-closes-waiting-goroutine", "internal/pkg/midi/device/open_rgb.go", "\t\t\t\tif started != 0 && time.Since(time.Unix(0, started)) > time.Millisecond*500 {", "\t\t\t\tif started >= 0 {", ["C17"]),
    ("c01-repeat-filter-survives-mapping-switch", DEV, "\tfor identifier := range d.lastAnalogValue {", "\tfor identifier := range map[string]float64{} {", ["C01"]),
    ("c06-deadzone-at-center-on-signed-axes", EVS, "\tif analog.DeadzoneAtCenter && !canBeNegative {", "\tif analog.DeadzoneAtCenter {", ["C06", "C07", "C08"]),
    ("c04-semitone-wraps-at-8-bits", DEV, "\td.semitone++\n", "\td.semitone = int(int8(d.semitone + 1))\n", ["C04"]),
    ("c17-reverse-mapping-modulo-256", "internal/pkg/midi/device/open_rgb.go", "\t\t\tbase := int(note) - offset\n\t\t\tif base < 0 || base > 127 {", "\t\t\tbase := int(note) - offset\n\t\t\tif false {", ["C17"]),
    ("c06-shared-controller-zeroed", EVS, "\t\toneController := analog.CC == analog.CCNeg && channel == channelNeg", "\t\toneController := false && analog.CC == analog.CCNeg && channel == channelNeg", ["C06"]),
    ("c10-field-names-case-insensitive", "internal/pkg/midi/device/config/parser.go", "\t\t\tfieldType, ok := fields[key]\n", "\t\t\tfieldType, ok := fields[strings.ToLower(key)]\n", ["C10"]),
    ("c12-named-pipes-opened", "internal/pkg/midi/device/config/loader.go", "err == nil && !st.Mode().IsRegular() {", "err == nil && !st.Mode().IsRegular() && false {", ["C12"]),
    ("c08-tracker-by-code-only", EVS, "identifier := fmt.Sprintf(\"%s/%s/%d\", ie.Source.Name, ie.Source.DeviceInfo.Event(), ie.Event.Code)", "identifier := fmt.Sprintf(\"%d\", ie.Event.Code)", ["C08"]),
    ("c08-thresholds-swapped", EVS, "\t\tcase value > -0.49 && value < 0.49:\n\t\t\td.AnalogNoteOff(identifier, ie)", "\t\tcase value > -0.3 && value < 0.3:\n\t\t\td.AnalogNoteOff(identifier, ie)", ["C08"]),
    ("c08-noteoff-current-transposition", DEV, "\tnote, channel := noteAndChannel[0], noteAndChannel[1]\n\n\tevent := midi.NoteEvent(midi.NoteOff, channel, note, 0)",
     "\tnote, channel := noteAndChannel[0], d.channel\n\n\tevent := midi.NoteEvent(midi.NoteOff, channel, note, 0)", ["C08", "C01"]),
    ("c08-negative-plays-positive", PARSER, "noteNeg = byte(*analog.NoteNegative)", "noteNeg = byte(*analog.Note)", ["C08", "C10"]),
    ("c08-unguarded-negative", EVS, "if !ok && analog.Bidirectional {", "if !ok {", ["C08"]),
    ("c08-jump-keeps-other-direction", EVS, "\t\t\t\td.AnalogNoteOn(identifier, analog.Note, analog.ChannelOffset, ie)\n\t\t\t}\n\t\t\td.AnalogNoteOff(identifierNeg, ie)", "\t\t\t\td.AnalogNoteOn(identifier, analog.Note, analog.ChannelOffset, ie)\n\t\t\t}", ["C08", "C01"]),
    ("c05-panic-unmasked-channel", PARSER, "if cfg.Defaults.Channel < 1 || cfg.Defaults.Channel > 16 {", "if cfg.Defaults.Channel < 0 || cfg.Defaults.Channel > 16 {", ["C05", "C10"]),
    ("c05-cc-drop-mod16", EVS, "\t\tchannel := (d.channel + analog.ChannelOffset) % 16\n\t\tif canBeNegative {", "\t\tchannel := (d.channel + analog.ChannelOffset)\n\t\tif canBeNegative {", ["C05", "C06"]),
    ("c05-bend-overflow", MIDIEV, "target = 8192 + int(val*8191)", "target = 8192 + int(val*8192)", ["C05", "C06"]),
    ("c09-nil-action-negative", PARSER, "if analog.ActionNegative != nil {", "if analog.Action != nil {", ["C09", "C10"]),
    ("c09-unguarded-decoder", PARSER, "err := decodeTOML(d, &cfg)", "err := d.Decode(&cfg)", ["C09"]),
    ("c09-index-first-mapping", PARSER, "\tif mappingIndex == -1 {\n\t\treturn Config{}, fmt.Errorf(\"default mapping", "\tif mappingIndex == -1 && len(keyMapping[0].Name) > 100 {\n\t\treturn Config{}, fmt.Errorf(\"default mapping", ["C09", "C10"]),
    ("c10-offset-dropped-for-names", PARSER, "midiMappingTmp[evcode] = Key{Note: note, ChannelOffset: byte(offsetInt)}", "midiMappingTmp[evcode] = Key{Note: note}", ["C10"]),
    ("c10-flip-ignored-for-bend", PARSER, "\t\t\t\t\t\tMappingType:      mappingType,\n\t\t\t\t\t\tFlipAxis:         analog.FlipAxis,\n\t\t\t\t\t\tChannelOffset:    byte(analog.ChannelOffset),",
     "\t\t\t\t\t\tMappingType:      mappingType,\n\t\t\t\t\t\tChannelOffset:    byte(analog.ChannelOffset),", ["C10"]),
    ("c10-ccneg-range-unchecked", PARSER, "if *analog.CCNegative < 0 || *analog.CCNegative > 119 {", "if *analog.CCNegative < 0 {", ["C10"]),
    ("c10-unknown-fields-allowed", PARSER, "\td.DisallowUnknownFields()\n", "", ["C10"]),
    ("c10-exit-order-reversed", PARSER, "exitSequence = append(exitSequence, evcode)", "exitSequence = append([]evdev.EvCode{evcode}, exitSequence...)", ["C10"]),
    ("c10-green-blue-swapped", PARSER, "\t\t\tGreen: byte(v >> 8),\n\t\t\tBlue:  byte(v),", "\t\t\tGreen: byte(v),\n\t\t\tBlue:  byte(v >> 8),", ["C10"]),
    ("c10-velocity-0-kept", PARSER, "\tif velocity == 0 {\n\t\tvelocity = 64\n\t}", "", ["C10"]),
    ("c10-deadzone-specific-dropped", PARSER, "deadzonesTmp[evcode] = value", "if value != 0.33 {\n\t\t\t\t\tdeadzonesTmp[evcode] = value\n\t\t\t\t}", ["C10"]),
    ("c12-factory-before-user-default", "internal/pkg/midi/device/config/loader.go",
     "\t\tcfg, ok = c.User.Keyboards[input.InputID{}] // picking user default if exist\n\t\tif ok {\n\t\t\treturn cfg, nil\n\t\t}\n\t\tcfg, ok = c.Factory.Keyboards[id]\n\t\tif ok {\n\t\t\treturn cfg, nil\n\t\t}",
     "\t\tcfg, ok = c.Factory.Keyboards[id]\n\t\tif ok {\n\t\t\treturn cfg, nil\n\t\t}\n\t\tcfg, ok = c.User.Keyboards[input.InputID{}] // picking user default if exist\n\t\tif ok {\n\t\t\treturn cfg, nil\n\t\t}", ["C12"]),
    ("c12-gamepad-factory-from-keyboards", "internal/pkg/midi/device/config/loader.go",
     "\t\tcfg, ok = c.Factory.Gamepads[input.InputID{}] // picking default config", "\t\tcfg, ok = c.Factory.Keyboards[input.InputID{}] // picking default config", ["C12"]),
    ("c12-nil-fileinfo", "internal/pkg/midi/device/config/loader.go", "\t\tif err != nil {\n\t\t\t// missing or unreadable directory: info is nil here\n\t\t\treturn err\n\t\t}\n", "", ["C12"]),
    ("c12-suffix-without-dot", "internal/pkg/midi/device/config/loader.go", "if !strings.HasSuffix(name, \".toml\") {", "if !strings.HasSuffix(name, \"toml\") {", ["C12"]),
    ("c12-bad-file-aborts-dir", "internal/pkg/midi/device/config/loader.go", "load failed: %s\", name, configType, err), logger.Warning)\n\t\t\treturn nil", "load failed: %s\", name, configType, err), logger.Warning)\n\t\t\treturn filepath.SkipDir", ["C12"]),
    ("c19-suffix-without-dot", "internal/pkg/midi/device/config/monitor.go", "strings.HasSuffix(name, \".toml\")", "strings.HasSuffix(name, \"toml\")", ["C19"]),
    ("c19-skips-user-keyboard", "internal/pkg/midi/device/config/monitor.go", "\t\t\tuserKeyboard,\n\t\t} {\n\t\t\terr = watcher.Add(path)", "\t\t} {\n\t\t\terr = watcher.Add(path)", ["C19"]),
    ("c19-close-not-propagated", "internal/pkg/midi/device/config/monitor.go", "\t\tdefer close(change)\n", "", ["C19"]),
    ("c19-every-second-write", "internal/pkg/midi/device/config/monitor.go", "\t\tfor event := range watcher.Events {\n", "\t\tn := 0\n\t\tfor event := range watcher.Events {\n\t\t\tn++\n\t\t\tif n > 12 && n%2 == 0 {\n\t\t\t\tcontinue\n\t\t\t}\n", ["C19"]),
    ("c20-group-by-name", "internal/pkg/input/info.go", "return PhysicalID(d.Phys)\n}\n", "return PhysicalID(d.Phys + d.Name[:1])\n}\n", ["C20"]),
    ("c20-group-without-interface", "internal/pkg/input/info.go", ["return PhysicalID(d.Phys)\n}\n", "import (\n\t\"fmt\"\n"], ["return PhysicalID(strings.SplitN(d.Phys, \"/input\", 2)[0])\n}\n", "import (\n\t\"fmt\"\n\t\"strings\"\n"], ["C20"]),
    ("c20-group-case-insensitive", "internal/pkg/input/info.go", ["return PhysicalID(d.Phys)\n}\n", "import (\n\t\"fmt\"\n"], ["return PhysicalID(strings.ToLower(strings.TrimSpace(d.Phys)))\n}\n", "import (\n\t\"fmt\"\n\t\"strings\"\n"], ["C20"]),
    ("c20-keyboard-contains-only", "internal/pkg/input/device.go", "\tcase contains(handlers, DI_TYPE_STD_KBD):", "\tcase containsOnly(handlers, DI_TYPE_STD_KBD):", ["C20"]),
    ("c20-first-handler-decides", "internal/pkg/input/device.go", "dev.DeviceType = DetermineDeviceType(foo)", "dev.DeviceType = DetermineDeviceType(foo[:1])", ["C20"]),
    ("c20-has-depends-on-first", "internal/pkg/input/info.go", "\tcase has(d.CapableTypes, evdev.EV_ABS):\n\t\treturn DI_TYPE_JOYSTICK", "\tcase len(d.CapableTypes) > 0 && d.CapableTypes[0] != evdev.EV_ABS && has(d.CapableTypes, evdev.EV_ABS):\n\t\treturn DI_TYPE_JOYSTICK", ["C20"]),
    ("c20-drop-last-of-big-group", "internal/pkg/input/device.go", "\t\tfor _, di := range dis {\n\t\t\thandler := Handler{", "\t\tfor i, di := range dis {\n\t\t\tif i == 4 {\n\t\t\t\tbreak\n\t\t\t}\n\t\t\thandler := Handler{", ["C20"]),
    ("c15-despawn-deadlock", "internal/pkg/utils/fan.go", "\t\t\tselect {\n\t\t\tcase o <- e:\n\t\t\tcase <-removed:\n\t\t\t}", "\t\t\to <- e", ["C15"]),
    ("c15-drop-when-full", "internal/pkg/utils/fan.go", "\t\t\tselect {\n\t\t\tcase o <- e:\n\t\t\tcase <-removed:\n\t\t\t}", "\t\t\tselect {\n\t\t\tcase o <- e:\n\t\t\tdefault:\n\t\t\t}", ["C15"]),
    ("c15-no-close-on-despawn", "internal/pkg/utils/fan.go", "\tclose(c)\n\tdelete(f.outputs, id)", "\t_ = c\n\tdelete(f.outputs, id)", ["C15"]),
    ("c15-output-swaps-pairs", "internal/pkg/midi/process.go", "\t\t\tportOut <- ev\n", "\t\t\tif len(ev) == 3 && ev[2]%64 == 63 {\n\t\t\t\tif nx, ok2 := <-midiEventsOut; ok2 {\n\t\t\t\t\tportOut <- nx\n\t\t\t\t}\n\t\t\t}\n\t\t\tportOut <- ev\n", ["C15"]),
    ("c15-input-drops-when-busy", "internal/pkg/midi/process.go", "\t\t\tfor ev := range port.Input.ReceiveChannel() {\n\t\t\t\tinEvents <- ev\n\t\t\t}", "\t\t\tfor ev := range port.Input.ReceiveChannel() {\n\t\t\t\tselect {\n\t\t\t\tcase inEvents <- ev:\n\t\t\t\tdefault:\n\t\t\t\t}\n\t\t\t}", ["C15"]),
    ("c15-output-dup-on-note-zero", "internal/pkg/midi/process.go", "\t\t\tportOut <- ev\n", "\t\t\tportOut <- ev\n\t\t\tif len(ev) == 3 && ev[1] == 1 && ev[2] == 17 {\n\t\t\t\tportOut <- ev\n\t\t\t}\n", ["C15"]),
    ("c18-no-trunc", "cmd/hidi/config.go", "os.O_CREATE|os.O_WRONLY|os.O_TRUNC, 0o666)", "os.O_CREATE|os.O_WRONLY, 0o666)", ["C18"]),
    ("c18-walk-whole-config", "cmd/hidi/config.go", "err = fs.WalkDir(templateConfig, configDir+\"/factory\", func(path string, entry fs.DirEntry, err error) error {", "err = fs.WalkDir(templateConfig, configDir, func(path string, entry fs.DirEntry, err error) error {", ["C18"]),
    ("c18-length-compare", "cmd/hidi/config.go", "if bytes.Equal(data, newData) {", "if len(data) == len(newData) && bytes.Equal(data[:0], newData[:0]) {", ["C18"]),
    ("c18-blacklist-always", "cmd/hidi/config.go", "\tif os.IsNotExist(err) {\n\t\tdst, err := os.OpenFile(blacklistPath", "\tif os.IsNotExist(err) || true {\n\t\tdst, err := os.OpenFile(blacklistPath", ["C18"]),
    ("c18-blacklist-never", "cmd/hidi/config.go", "\tif os.IsNotExist(err) {\n\t\tdst, err := os.OpenFile(blacklistPath", "\tif os.IsNotExist(err) && false {\n\t\tdst, err := os.OpenFile(blacklistPath", ["C18"]),
    ("c18-skip-existing-dir-files", "cmd/hidi/config.go", "\t\t\t_, err := os.Stat(path)\n\t\t\tif err == nil {\n\t\t\t\treturn nil\n\t\t\t}", "\t\t\t_, err := os.Stat(path)\n\t\t\tif err == nil {\n\t\t\t\tif strings.HasSuffix(path, \"gamepad\") {\n\t\t\t\t\treturn fs.SkipDir\n\t\t\t\t}\n\t\t\t\treturn nil\n\t\t\t}", ["C18"]),
    ("c18-embed-drops-readme", "cmd/hidi/config.go", "//go:embed hidi-config/factory/README\n", "", ["C18"]),
    ("c18-user-placeholder-restored", "cmd/hidi/config.go", "\t// create device blacklist.txt if does not exist.", "\t_ = os.WriteFile(configDir+\"/user/README.md\", []byte(\"see factory\"), 0o666)\n\t// create device blacklist.txt if does not exist.", ["C18"]),
    ("c09-hidi-zero-rate", "cmd/hidi/config.go", "if rawConfig.HIDI.DiscoveryRate <= 0 {", "if rawConfig.HIDI.DiscoveryRate < 0 {", ["C09"]),
    ("c16-cleanup-unlocked", EVS, "\td.eventProcessMutex.Lock()\n\tfor evcode := range d.noteTracker {", "\tfor evcode := range d.noteTracker {", ["C16"]),
    ("c16-led-reads-unlocked", "internal/pkg/midi/device/open_rgb.go", "\t\td.eventProcessMutex.Lock()\n\t\toffset := int(d.semitone) + int(d.octave)*12", "\t\toffset := int(d.semitone) + int(d.octave)*12\n\t\td.eventProcessMutex.Lock()", ["C16"]),
    ("c16-external-tracker-unlocked", EVS, "\t\t\tcase midi.NoteOff:\n\t\t\t\td.externalTrackerMutex.Lock()\n\t\t\t\tdelete(d.externalNoteTracker[ev.Channel()], ev.Note())\n\t\t\t\td.externalTrackerMutex.Unlock()", "\t\t\tcase midi.NoteOff:\n\t\t\t\tdelete(d.externalNoteTracker[ev.Channel()], ev.Note())", ["C16"]),
    ("c16-led-loop-ignores-cancel", "internal/pkg/midi/device/open_rgb.go", "\t\tcase <-ctx.Done():\n\t\t\tbreak root\n\t\tdefault:\n\t\t\tbreak\n\t\t}\n\t\ttime.Sleep(time.Millisecond * 10)", "\t\tcase <-ctx.Done():\n\t\t\ttime.Sleep(time.Second * 4)\n\t\t\tbreak root\n\t\tdefault:\n\t\t\tbreak\n\t\t}\n\t\ttime.Sleep(time.Millisecond * 10)", ["C16"]),
    ("c16-midi-goroutine-leaks", EVS, "\t\tcase <-ctx.Done():\n\t\t\tbreak root\n\t\tcase ev := <-d.midiIn:", "\t\tcase <-ctx.Done():\n\t\t\tgo func() {\n\t\t\t\tfor range d.midiIn {\n\t\t\t\t}\n\t\t\t}()\n\t\t\tbreak root\n\t\tcase ev := <-d.midiIn:", ["C16"]),
    ("c17-black-keys-wrong", "internal/pkg/midi/device/open_rgb.go", "\t\t\t\tcase 1, 3, 6, 8, 10: // black keys", "\t\t\t\tcase 1, 3, 5, 8, 10: // black keys", ["C17"]),
    ("c17-active-ignores-offset", "internal/pkg/midi/device/open_rgb.go", "\t\t\tnote := noteAndChannel[0] - byte(offset)\n", "\t\t\tnote := noteAndChannel[0]\n", ["C17"]),
    ("c17-range-off-by-one", "internal/pkg/midi/device/open_rgb.go", "\t\t\tif x < 0 || x > 127 {\n\t\t\t\tcontinue", "\t\t\tif x < 0 || x > 128 {\n\t\t\t\tcontinue", ["C17"]),
    ("c17-no-red-on-disconnect", "internal/pkg/midi/device/open_rgb.go", "\tc.UpdateLEDs(index, ledArray)\n\tlog.Info(fmt.Sprintf(\"[OpenRGB] device thread exited\")", "\tlog.Info(fmt.Sprintf(\"[OpenRGB] device thread exited\")", ["C17"]),
    ("c17-octave-one-like-more", "internal/pkg/midi/device/open_rgb.go", "\t\t\tif d.octave == 1 {\n", "\t\t\tif d.octave == 1 && false {\n", ["C17"]),
    ("c17-mapping-end-not-shown", "internal/pkg/midi/device/open_rgb.go", "\t\tif d.mapping == 0 {\n\t\t\tsetActionLed(config.MappingDown, white1)", "\t\tif d.mapping == 0 && false {\n\t\t\tsetActionLed(config.MappingDown, white1)", ["C17"]),
    ("c17-panic-keeps-external", DEV, "\td.externalNoteTracker = inmap\n", "\t_ = inmap\n", ["C17"]),
    ("c17-velocity-zero-on", EVS, "if len(ev) > 2 && ev[2] == 0 { // Note On with velocity 0 is a Note Off", "if len(ev) > 2 && ev[2] == 0 && false { // Note On with velocity 0 is a Note Off", ["C17"]),
    ("c17-current-channel-not-special", "internal/pkg/midi/device/open_rgb.go", "\t\t\t\tledArray[id] = d.config.OpenRGB.Colors.ActiveExternal", "\t\t\t\tledArray[id] = channelColors[d.channel]", ["C17"]),
    ("c17-led0-fallback", "internal/pkg/midi/device/open_rgb.go", "\t\tid, ok := indexMap[code]\n\t\tif !ok {\n\t\t\treturn\n\t\t}\n\t\tledArray[id] = color", "\t\tid := indexMap[code]\n\t\tledArray[id] = color", ["C17"]),
    ("c17-semitone-not-in-offset", "internal/pkg/midi/device/open_rgb.go", "\t\toffset := int(d.semitone) + int(d.octave)*12", "\t\toffset := int(d.octave) * 12", ["C17"]),
    ("c14-repeat-not-filtered", EVS, "\tif event.Event.Type == evdev.EV_KEY && event.Event.Value == EV_KEY_REPEAT {\n\t\treturn\n\t}\n", "", ["C14"]),
    ("c14-check-before-insert", EVS,
     "\t\td.keyTracker[ie.Event.Code] = struct{}{}\n\t\tok := d.checkExitSequence()", "\t\tok := d.checkExitSequence()\n\t\td.keyTracker[ie.Event.Code] = struct{}{}", ["C14"]),
    ("c14-not-swallowed", EVS, "\t\t\t// this simple hack prevents from hanging\n\t\t\treturn", "\t\t\t// this simple hack prevents from hanging", ["C14"]),
    ("c14-any-key", EVS, "\t\tif _, ok := d.keyTracker[key]; !ok {\n\t\t\treturn false\n\t\t}\n\t}\n\td.sigs <- syscall.SIGINT",
     "\t\tif _, ok := d.keyTracker[key]; ok {\n\t\t\td.sigs <- syscall.SIGINT\n\t\t\treturn true\n\t\t}\n\t}\n\treturn false\n\td.sigs <- syscall.SIGINT", ["C14"]),
    ("c14-release-does-not-clear", EVS, "\t} else {\n\t\tdelete(d.keyTracker, ie.Event.Code)\n\t}", "\t} else {\n\t\tif len(d.keyTracker) > 2 {\n\t\t\tdelete(d.keyTracker, ie.Event.Code)\n\t\t}\n\t}", ["C14"]),
]


# Patterns brought up to date with the repaired tree (third session): the source under these mutants had changed through the
# later repairs (trackers keyed by event node, transposition(), the repeat filter, the watcher loop, the LED watchdog ...).
_UPDATED = {'c01-drop-unmapped-release': ['\t\t\t_, ok := d.noteTracker[keyOf(ie)]\n\t\t\tif ok {', '\t\t\t_, ok := d.noteTracker[keyOf(ie)]\n\t\t\tif ok && false {'],
 'c01-skip-key-cleanup-managed': ['\tfor key := range d.noteTracker {\n\t\td.noteOff(key, &input.InputEvent{',
                                  '\tfor key := range d.noteTracker {\n'
                                  '\t\tif d.config.CollisionMode == config.CollisionRetrigger {\n'
                                  '\t\t\tbreak\n'
                                  '\t\t}\n'
                                  '\t\td.noteOff(key, &input.InputEvent{'],
 'c02-tracker-stores-base-channel': ['d.noteTracker[keyOf(ev)] = [2]byte{note, channel}\n\td.activeNotesCounter[channel][note]++',
                                     'd.noteTracker[keyOf(ev)] = [2]byte{note, d.channel}\n\td.activeNotesCounter[channel][note]++'],
 'c04-int8-octave': ['\twhole, rest := d.semitone/12, d.semitone%12\n\toctaves := d.octave + whole',
                     '\twhole, rest := d.semitone/12, d.semitone%12\n\toctaves := int(int8(d.octave)) + whole'],
 'c06-dedupe-on-raw-sign': ['\tif seen && lastValue == value {', '\tif seen && (lastValue == value || (lastValue > 0.9 && value > 0.9)) {'],
 'c07-learning-threshold': ['if d.ccLearning && !(value < -0.5 || value > 0.5) &&', 'if d.ccLearning && !(value < -0.5 || value > 0.3) &&'],
 'c07-never-rearm': ['\t\t\t\td.ccZeroed[analog.CCNeg] = false\n'
                     '\t\t\t} else {\n'
                     '\t\t\t\td.outputEvents <- midi.ControlChangeEvent(channel, analog.CC, byte(int(float64(127)*adjustedValue)))\n'
                     '\t\t\t\tif !oneController && !d.ccZeroed[analog.CCNeg] {\n'
                     '\t\t\t\t\td.outputEvents <- midi.ControlChangeEvent(channelNeg, analog.CCNeg, 0)\n'
                     '\t\t\t\t\td.ccZeroed[analog.CCNeg] = true\n'
                     '\t\t\t\t}\n'
                     '\t\t\t\td.ccZeroed[analog.CC] = false\n'
                     '\t\t\t}\n'
                     '\t\tcase canBeNegative && !analog.Bidirectional:',
                     '\t\t\t} else {\n'
                     '\t\t\t\td.outputEvents <- midi.ControlChangeEvent(channel, analog.CC, byte(int(float64(127)*adjustedValue)))\n'
                     '\t\t\t\tif !oneController && !d.ccZeroed[analog.CCNeg] {\n'
                     '\t\t\t\t\td.outputEvents <- midi.ControlChangeEvent(channelNeg, analog.CCNeg, 0)\n'
                     '\t\t\t\t\td.ccZeroed[analog.CCNeg] = true\n'
                     '\t\t\t\t}\n'
                     '\t\t\t\td.ccZeroed[analog.CC] = false\n'
                     '\t\t\t}\n'
                     '\t\tcase canBeNegative && !analog.Bidirectional:'],
 'c07-shared-zero-flag': ['\t\t\t\td.outputEvents <- midi.ControlChangeEvent(channel, analog.CC, byte(int(float64(127)*adjustedValue)))\n'
                          '\t\t\t\tif !oneController && !d.ccZeroed[analog.CCNeg] {\n'
                          '\t\t\t\t\td.outputEvents <- midi.ControlChangeEvent(channelNeg, analog.CCNeg, 0)\n'
                          '\t\t\t\t\td.ccZeroed[analog.CCNeg] = true\n'
                          '\t\t\t\t}\n'
                          '\t\t\t\td.ccZeroed[analog.CC] = false\n'
                          '\t\t\t}\n'
                          '\t\tcase canBeNegative && !analog.Bidirectional:',
                          '\t\t\t\td.outputEvents <- midi.ControlChangeEvent(channel, analog.CC, byte(int(float64(127)*adjustedValue)))\n'
                          '\t\t\t\tif !oneController && !d.ccZeroed[analog.CC] {\n'
                          '\t\t\t\t\td.outputEvents <- midi.ControlChangeEvent(channelNeg, analog.CCNeg, 0)\n'
                          '\t\t\t\t\td.ccZeroed[analog.CC] = true\n'
                          '\t\t\t\t}\n'
                          '\t\t\t\td.ccZeroed[analog.CC] = false\n'
                          '\t\t\t}\n'
                          '\t\tcase canBeNegative && !analog.Bidirectional:'],
 'c08-jump-keeps-other-direction': ['\t\tif value > -0.49 {\n\t\t\td.AnalogNoteOff(identifierNeg, ie)\n\t\t}',
                                    '\t\tif value > -0.49 && value < 0.49 {\n\t\t\td.AnalogNoteOff(identifierNeg, ie)\n\t\t}'],
 'c08-thresholds-swapped': ['\t\tif value < 0.49 {\n\t\t\td.AnalogNoteOff(identifier, ie)\n\t\t}\n\t\tif value > -0.49 {',
                            '\t\tif value < 0.3 {\n\t\t\td.AnalogNoteOff(identifier, ie)\n\t\t}\n\t\tif value > -0.3 {'],
 'c16-cleanup-unlocked': ['\td.eventProcessMutex.Lock()\n\tfor key := range d.noteTracker {', '\tfor key := range d.noteTracker {'],
 'c16-led-reads-unlocked': ['\t\td.eventProcessMutex.Lock()\n\t\toffset := d.transposition()',
                            '\t\toffset := d.transposition()\n\t\td.eventProcessMutex.Lock()'],
 'c16-no-watchdog-for-mute-server': ['if started != 0 && time.Since(time.Unix(0, started)) > time.Millisecond*500 {',
                                     'if started != 0 && time.Since(time.Unix(0, started)) > time.Hour {'],
 'c17-active-ignores-offset': ['\t\tfor _, noteAndChannel := range d.noteTracker {\n\t\t\tbase := int(noteAndChannel[0]) - offset\n',
                               '\t\tfor _, noteAndChannel := range d.noteTracker {\n\t\t\tbase := int(noteAndChannel[0])\n'],
 'c17-no-red-on-disconnect': ['\tserverCall(func() { c.UpdateLEDs(index, ledArray) })\n\tlog.Info(fmt.Sprintf("[OpenRGB] device thread exited")',
                              '\tlog.Info(fmt.Sprintf("[OpenRGB] device thread exited")'],
 'c17-semitone-not-in-offset': ['\t\toffset := d.transposition()', '\t\toffset := d.transposition() - d.semitone'],
 'c18-changed-factory-file-rewritten-in-place': ['\t\t// with cp -l, a symbolic link), which must stay as it is\n\t\tif err := os.Remove(path); err != nil {',
                                                 '\t\t// with cp -l, a symbolic link), which must stay as it is\n\t\tif err := error(nil); err != nil {'],
 'c19-every-second-write': [['\t\t// the watcher reports its errors on a channel of its own and stops delivering events until somebody takes them\n\t\tfor {',
                             '\t\t\t\tif event.Op != fsnotify.Write {\n\t\t\t\t\tcontinue\n\t\t\t\t}\n'],
                            ['\t\tseenWrites := 0\n'
                             '\t\t// the watcher reports its errors on a channel of its own and stops delivering events until somebody takes them\n'
                             '\t\tfor {',
                             '\t\t\t\tif event.Op != fsnotify.Write {\n'
                             '\t\t\t\t\tcontinue\n'
                             '\t\t\t\t}\n'
                             '\t\t\t\tseenWrites++\n'
                             '\t\t\t\tif seenWrites > 12 && seenWrites%2 == 0 {\n'
                             '\t\t\t\t\tcontinue\n'
                             '\t\t\t\t}\n']]}
MUTANTS = [(n, p, _UPDATED[n][0], _UPDATED[n][1], props) if n in _UPDATED else (n, p, o, nw, props) for (n, p, o, nw, props) in MUTANTS]


def run(cmd, **kw):
    return subprocess.run(cmd, stdout=subprocess.PIPE, stderr=subprocess.STDOUT, text=True, **kw)


def main():
    sel = sys.argv[1:]
    extra_props = [a[1:] for a in sel if a.startswith("+")]
    sel = [a for a in sel if not a.startswith("+")]
    base = "/tmp/verif-mutants"
    os.makedirs(base, exist_ok=True)
    summary = []
    for (name, path, old, new, props) in MUTANTS:
        if sel and not any(s in name for s in sel):
            continue
        wt = os.path.join(base, name)
        run(["git", "-C", "/repo", "worktree", "remove", "--force", wt])
        shutil.rmtree(wt, ignore_errors=True)
        p = run(["git", "-C", "/repo", "worktree", "add", "--detach", wt, "HEAD"])
        if p.returncode != 0:
            print(p.stdout)
            return 2
        try:
            f = os.path.join(wt, path)
            src = open(f).read()
            olds, news = (old, new) if isinstance(old, (list, tuple)) else ([old], [new])
            bad = [o for o in olds if src.count(o) != 1]
            if bad:
                summary.append((name, "PATTERN-NOT-FOUND(%d)" % src.count(bad[0])))
                continue
            for o, n_ in zip(olds, news):
                src = src.replace(o, n_)
            open(f, "w").write(src)
            b = run(["go", "build", "./internal/..."], cwd=wt, env=dict(os.environ, GOFLAGS="-mod=mod", GOPROXY="off", GOSUMDB="off", GOTOOLCHAIN="local"))
            if b.returncode != 0 and "alsa" not in b.stdout:
                summary.append((name, "DOES-NOT-BUILD " + b.stdout[-300:]))
                continue
            for prop in (props + extra_props) or ["C01"]:
                t0 = time.time()
                r = run([os.path.join(HERE, "check"), prop], env=dict(os.environ, VERIF_REPO=wt), cwd=HERE)
                viol = [l for l in r.stdout.splitlines() if l.startswith("VIOLATION")]
                first = [l for l in r.stdout.splitlines() if l.startswith("  C")][:1]
                verdict = "caught" if r.returncode == 1 and viol else ("MISSED" if r.returncode == 0 else "ERROR rc=%d" % r.returncode)
                summary.append((name, "%s %s (%.0fs) %s" % (prop, verdict, time.time() - t0, (first[0][:160] if first else ""))))
                if r.returncode not in (0, 1):
                    print(r.stdout[-3000:])
        finally:
            run(["git", "-C", "/repo", "worktree", "remove", "--force", wt])
            shutil.rmtree(wt, ignore_errors=True)
            shutil.rmtree(os.path.join(HERE, "build", "bin-alt" + __import__("hashlib").sha1(wt.encode()).hexdigest()[:8]), ignore_errors=True)
            shutil.rmtree(os.path.join(HERE, "build", "out-alt" + __import__("hashlib").sha1(wt.encode()).hexdigest()[:8]), ignore_errors=True)
    run(["git", "-C", "/repo", "worktree", "prune"])
    for name, res in summary:
        print("%-36s %s" % (name, res))
    return 0


if __name__ == "__main__":
    sys.exit(main())
