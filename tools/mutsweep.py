#!/usr/bin/env python3
"""Automatic sensitivity sweep: first-order syntactic mutants (tools/mutgen) of the anchored source files, each applied to a
scratch worktree of /repo under /tmp, filtered by "still builds" and "pinned baseline tests still pass", then run against the
checks of the properties anchored in that file (smoke size: VERIF_SCALE, stop at the first failing shard). Survivors are the
output worth reading: each is either an equivalent mutant, a change outside every listed property, or a blind spot.

  tools/mutsweep.py [--workers 3] [--jobs 5] [--scale 0.25] [--sample N] [--files a.go,b.go] [--out build/mutsweep.jsonl]
                    [--only-ids file] [--full]     (--full: quick tier at full size, for a second pass over survivors)

Results are appended to --out as JSON lines; ids already present there are skipped (the sweep can be resumed)."""
import argparse
import hashlib
import json
import os
import queue
import random
import shutil
import subprocess
import sys
import threading
import time

HERE = os.path.dirname(os.path.dirname(os.path.abspath(__file__)))
ENV = dict(os.environ, GOFLAGS="-mod=mod", GOPROXY="off", GOSUMDB="off", GOTOOLCHAIN="local")
D = "internal/pkg/midi/device/"
# file -> checks, most likely killer first
FILES = {
    D + "device.go": ["C03", "C04", "C02", "C01", "C13", "C14", "C08", "C07", "C05", "C17", "C16"],
    D + "events.go": ["C08", "C06", "C07", "C01", "C02", "C14", "C13", "C04", "C05", "C17", "C16"],
    D + "config/parser.go": ["C10", "C09", "C08", "C05"],
    D + "config/event.go": ["C11", "C10"],
    D + "config/loader.go": ["C12"],
    D + "config/monitor.go": ["C19"],
    D + "config/config.go": ["C10", "C03"],
    "internal/pkg/midi/event.go": ["C06", "C05", "C11", "C03"],
    "internal/pkg/midi/process.go": ["C15"],
    "internal/pkg/utils/fan.go": ["C15"],
    "internal/pkg/input/device.go": ["C20"],
    "internal/pkg/input/info.go": ["C20"],
    "cmd/hidi/config.go": ["C18", "C09"],
    "cmd/hidi/manager.go": ["C19"],
    D + "open_rgb.go": ["C17", "C16"],
}
# second pass (--full): the checks of the properties a FUNCTION serves, instead of everything anchored in the file
FUNC_CHECKS = {
    (D + "events.go", "handleABSEvent"): ["C08", "C06", "C07", "C05", "C01"],
    (D + "events.go", "handleKEYEvent"): ["C14", "C02", "C03", "C01", "C13"],
    (D + "events.go", "checkExitSequence"): ["C14"],
    (D + "events.go", "handleInputEvents"): ["C17", "C16"],
    (D + "events.go", "ProcessEvents"): ["C01", "C16"],
    (D + "events.go", "processEvent"): ["C01", "C14"],
    (D + "device.go", "NoteOn"): ["C03", "C04", "C02", "C01"],
    (D + "device.go", "NoteOff"): ["C03", "C02", "C01"],
    (D + "device.go", "noteOff"): ["C03", "C02", "C01"],
    (D + "device.go", "Panic"): ["C13", "C17", "C01"],
    (D + "device.go", "transposition"): ["C04", "C17"],
    (D + "device.go", "AnalogNoteOn"): ["C08", "C01"],
    (D + "device.go", "AnalogNoteOff"): ["C08", "C01"],
    (D + "device.go", "NewDevice"): ["C01", "C03", "C04", "C17"],
    (D + "device.go", "checkDoubleActions"): ["C04", "C13"],
    (D + "device.go", "Multinote"): [],
    (D + "device.go", "Status"): [],
    ("internal/pkg/input/device.go", "ProcessEvents"): [],  # needs evdev nodes: no property can reach it here
    ("internal/pkg/input/info.go", "String"): [],
    ("internal/pkg/midi/event.go", "String"): ["C11"],
    ("cmd/hidi/config.go", "parseDeviceBlacklist"): [],
    ("cmd/hidi/config.go", "LoadHIDIConfig"): ["C09"],
    ("cmd/hidi/config.go", "updateHIDIConfiguration"): ["C18"],
}
for fn in ("handleOpenrgb", "", "shiftColor", "valueToColor", "Value", "LEDSequence", "findController", "resolveHidraw"):
    FUNC_CHECKS[(D + "open_rgb.go", fn)] = ["C17"]
for fn in ("Type", "Note", "Channel", ""):
    FUNC_CHECKS[("internal/pkg/midi/event.go", fn)] = ["C17", "C11"]
FUNC_CHECKS[("internal/pkg/input/device.go", "String")] = []
FUNC_CHECKS[("internal/pkg/input/device.go", "SupportsNKRO")] = []
FUNC_CHECKS[("internal/pkg/input/info.go", "EventPath")] = []
FUNC_CHECKS[("cmd/hidi/config.go", "loadDeviceBlacklist")] = []
for fn in ("OctaveUp", "OctaveDown", "OctaveReset", "SemitoneUp", "SemitoneDown", "SemitoneReset", "ChannelUp", "ChannelDown", "ChannelReset",
           "MappingUp", "MappingDown", "MappingReset", "forgetAxisValues", "State"):
    FUNC_CHECKS[(D + "device.go", fn)] = ["C04", "C01", "C17"]
lock = threading.Lock()


def run(cmd, **kw):
    return subprocess.run(cmd, stdout=subprocess.PIPE, stderr=subprocess.STDOUT, text=True, errors="replace", **kw)


def tag_of(wt):
    return "alt" + hashlib.sha1(wt.encode()).hexdigest()[:8]


def worker(k, q, args, outf):
    wt = "/tmp/mutsweep/w%d" % k
    run(["git", "-C", "/repo", "worktree", "remove", "--force", wt])
    shutil.rmtree(wt, ignore_errors=True)
    p = run(["git", "-C", "/repo", "worktree", "add", "--detach", wt, "HEAD"])
    if p.returncode != 0:
        print(p.stdout)
        return
    try:
        while True:
            try:
                m = q.get_nowait()
            except queue.Empty:
                break
            path = os.path.join(wt, m["file"])
            orig = open(os.path.join(args.srcroot, m["file"]), "rb").read()  # HEAD of /repo as it was when the sweep began
            res = dict(id=m["id"], file=m["file"], line=m["line"], func=m["func"], op=m["op"], desc=m["desc"], start=m["start"], end=m["end"], repl=m["repl"])
            t0 = time.time()
            try:
                open(path, "wb").write(orig[:m["start"]] + m["repl"].encode() + orig[m["end"]:])
                pkgdir = "./" + os.path.dirname(m["file"])
                if not m["file"].startswith("cmd/"):
                    b = run(["go", "build", pkgdir], cwd=wt, env=ENV)
                    if b.returncode != 0:
                        res["verdict"] = "stillborn"
                        continue
                b = run([os.path.join(HERE, "tools", "baseline.py"), wt], env=ENV)
                if b.returncode != 0:
                    # fewer than the pinned 307 tests pass: the existing suite notices this mutant (or it does not compile)
                    res["verdict"] = "baseline"
                    res["how"] = b.stdout[:200]
                    continue
                res["verdict"] = "SURVIVED"
                res["checks"] = {}
                props = FILES[m["file"]]
                if args.full and (m["file"], m["func"]) in FUNC_CHECKS:
                    props = FUNC_CHECKS[(m["file"], m["func"])]
                    if not props:
                        res["verdict"] = "outside"  # code no listed property speaks about / can reach in this sandbox
                for prop in props:
                    env = dict(ENV, VERIF_REPO=wt, VERIF_JOBS=str(args.jobs), VERIF_FAILFAST="1", VERIF_TIMEOUT="240")
                    if not args.full:
                        env["VERIF_SCALE"] = str(args.scale)
                    t1 = time.time()
                    r = run([os.path.join(HERE, "check"), prop], cwd=HERE, env=env)
                    first = [l.strip() for l in r.stdout.splitlines() if l.startswith("  " + prop)][:1]
                    if r.returncode == 1:
                        res["verdict"] = "killed"
                        res["by"] = prop
                        res["how"] = first[0][:300] if first else ""
                        res["checks"][prop] = "caught %.0fs" % (time.time() - t1)
                        break
                    if r.returncode == 2 and "BUILD-FAILED" in r.stdout:
                        res["verdict"] = "stillborn"
                        break
                    if r.returncode == 2 and "guard timeout" in r.stdout:
                        # the mutant makes the code under test hang or crawl inside a part that has no watchdog of its own
                        res["verdict"] = "timeout"
                        res["by"] = prop
                        break
                    res["checks"][prop] = ("silent" if r.returncode == 0 else "error rc=%d: %s" % (r.returncode, r.stdout[-400:])) + " %.0fs" % (time.time() - t1)
            finally:
                open(path, "wb").write(orig)
                res["seconds"] = round(time.time() - t0, 1)
                with lock:
                    outf.write(json.dumps(res) + "\n")
                    outf.flush()
                    print("%-9s %-4s %-44s %s" % (res.get("verdict"), res.get("by", ""), res["id"], res["desc"][:90]), flush=True)
    finally:
        run(["git", "-C", "/repo", "worktree", "remove", "--force", wt])
        shutil.rmtree(wt, ignore_errors=True)
        shutil.rmtree(os.path.join(HERE, "build", "bin-" + tag_of(wt)), ignore_errors=True)
        shutil.rmtree(os.path.join(HERE, "build", "out-" + tag_of(wt)), ignore_errors=True)
        for suffix in (".mod", ".sum"):
            for pre in ("harness-", "hidi-"):
                try:
                    os.remove(os.path.join(HERE, "build", pre + tag_of(wt) + suffix))
                except OSError:
                    pass
        run(["git", "-C", "/repo", "worktree", "prune"])


def main():
    ap = argparse.ArgumentParser()
    ap.add_argument("--workers", type=int, default=3)
    ap.add_argument("--jobs", type=int, default=5)
    ap.add_argument("--scale", type=float, default=0.25)
    ap.add_argument("--sample", type=int, default=0)
    ap.add_argument("--files", default="")
    ap.add_argument("--out", default=os.path.join(HERE, "build", "mutsweep.jsonl"))
    ap.add_argument("--only-ids")
    ap.add_argument("--only-like", help="a results file: run the mutants whose (file, function, operator, description) appear in it with verdict SURVIVED/timeout or an error")
    ap.add_argument("--full", action="store_true")
    ap.add_argument("--seed", type=int, default=1)
    args = ap.parse_args()
    os.makedirs(os.path.join(HERE, "build"), exist_ok=True)
    gen = os.path.join(HERE, "build", "mutgen")
    b = run(["go", "build", "-o", gen, "."], cwd=os.path.join(HERE, "tools", "mutgen"), env=ENV)
    if b.returncode != 0:
        print(b.stdout)
        return 2
    files = [f for f in FILES if not args.files or any(s in f for s in args.files.split(","))]
    done = set()
    if os.path.exists(args.out):
        for line in open(args.out):
            try:
                done.add(json.loads(line)["id"])
            except Exception:
                pass
    only = None
    if args.only_ids:
        only = set(l.strip() for l in open(args.only_ids) if l.strip())
    like = None
    if args.only_like:
        like = set()
        for line in open(args.only_like):
            try:
                r = json.loads(line)
            except Exception:
                continue
            if r.get("verdict") in ("SURVIVED", "timeout") or any(str(v).startswith("error") for v in (r.get("checks") or {}).values()):
                like.add((r["file"], r["func"], r["op"], r["desc"]))
    q = queue.Queue()
    n = 0
    per_file = []
    # the sweep works on /repo's HEAD as it is now (the workers' worktrees are checked out from it): uncommitted or later edits
    # of /repo must not shift the byte offsets of the mutants
    args.srcroot = os.path.join(HERE, "build", "mutsrc-%d" % os.getpid())
    for f in files:
        dst = os.path.join(args.srcroot, f)
        os.makedirs(os.path.dirname(dst), exist_ok=True)
        blob = subprocess.run(["git", "-C", "/repo", "show", "HEAD:" + f], stdout=subprocess.PIPE).stdout
        open(dst, "wb").write(blob)
    for f in files:
        out = run([gen, args.srcroot, f]).stdout
        ms = [json.loads(l) for l in out.splitlines() if l.startswith("{")]
        rnd = random.Random(args.seed)
        rnd.shuffle(ms)
        if like is not None:
            ms = [m for m in ms if (m["file"], m["func"], m["op"], m["desc"]) in like]
        elif only is not None:
            ms = [m for m in ms if m["id"] in only]
        elif args.sample:
            ms = ms[:args.sample]
        per_file.append([m for m in ms if m["id"] not in done])
    # interleave the files so that a partial sweep covers all of them
    while any(per_file):
        for lst in per_file:
            if lst:
                q.put(lst.pop(0))
                n += 1
    print("mutsweep: %d mutants queued (%d already done)" % (n, len(done)), flush=True)
    os.makedirs("/tmp/mutsweep", exist_ok=True)
    with open(args.out, "a") as outf:
        ts = [threading.Thread(target=worker, args=(k, q, args, outf)) for k in range(args.workers)]
        for t in ts:
            t.start()
        for t in ts:
            t.join()
    shutil.rmtree("/tmp/mutsweep", ignore_errors=True)
    shutil.rmtree(args.srcroot, ignore_errors=True)
    return 0


if __name__ == "__main__":
    sys.exit(main())
