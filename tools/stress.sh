#!/bin/bash
# Silence test on the unchanged tree: every quick check at several VERIF_SEED values. Prints only alarms and a summary.
cd "$(dirname "$0")/.."
seeds=${SEEDS:-"2 3 12345"}
bad=0; n=0
for s in $seeds; do
  for p in $(python3 -c "import props; print(' '.join(sorted(props.PROPS)))"); do
    out=$(VERIF_SEED=$s VERIF_NO_EVIDENCE=1 ./check $p 2>&1); r=$?; n=$((n+1))
    if [ $r -ne 0 ]; then bad=$((bad+1)); echo "ALARM seed=$s $p rc=$r"; echo "$out" | grep -E "^(  C|VIOLATION|HARNESS-ERROR)" | cut -c1-400 | head -6; fi
  done
done
echo "stress: $n runs, $bad alarms"
