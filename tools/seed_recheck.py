#!/usr/bin/env python3
"""Regression of the checks themselves: every seeded change under /verif/seeded is applied to a scratch worktree of /repo's
HEAD and the quick check of its property is run against it (VERIF_REPO, stop at the first failing shard). Changes whose patch
no longer applies to the repaired tree are listed as such. Nothing is stored; the verdicts go to stdout.

  tools/seed_recheck.py [--workers 2] [--jobs 6] [id-substring ...]"""
import argparse
import hashlib
import json
import os
import queue
import shutil
import subprocess
import sys
import threading

HERE = os.path.dirname(os.path.dirname(os.path.abspath(__file__)))
ENV = dict(os.environ, GOFLAGS="-mod=mod", GOPROXY="off", GOSUMDB="off", GOTOOLCHAIN="local")
lock = threading.Lock()


def run(cmd, **kw):
    return subprocess.run(cmd, stdout=subprocess.PIPE, stderr=subprocess.STDOUT, text=True, errors="replace", **kw)


def worker(k, q, args, out):
    wt = "/tmp/seedre/w%d" % k
    run(["git", "-C", "/repo", "worktree", "remove", "--force", wt])
    shutil.rmtree(wt, ignore_errors=True)
    if run(["git", "-C", "/repo", "worktree", "add", "--detach", wt, "HEAD"]).returncode != 0:
        return
    tag = "alt" + hashlib.sha1(wt.encode()).hexdigest()[:8]
    try:
        while True:
            try:
                sid = q.get_nowait()
            except queue.Empty:
                break
            d = os.path.join(HERE, "seeded", sid)
            meta = json.load(open(os.path.join(d, "meta.json")))
            prop = meta["property"]
            run(["git", "checkout", "--", "."], cwd=wt)
            run(["git", "clean", "-fdq"], cwd=wt)
            a = run(["git", "apply", os.path.join(d, "patch.diff")], cwd=wt)
            fuzzy = ""
            if a.returncode != 0:
                # the tree has moved on under the change (later repairs): try again with reduced context; a change that then
                # applies and still builds is close enough to what was written to be worth running
                run(["git", "checkout", "--", "."], cwd=wt)
                run(["git", "clean", "-fdq"], cwd=wt)
                a = run(["patch", "-p1", "-F3", "-s", "--no-backup-if-mismatch", "-i", os.path.join(d, "patch.diff")], cwd=wt)
                for root, _, files in os.walk(wt):
                    for f in files:
                        if f.endswith(".rej") or f.endswith(".orig"):
                            os.remove(os.path.join(root, f))
                fuzzy = " (applied with reduced context)"
            if a.returncode != 0:
                verdict = "patch no longer applies"
            else:
                env = dict(ENV, VERIF_REPO=wt, VERIF_JOBS=str(args.jobs), VERIF_FAILFAST="1", VERIF_TIMEOUT="600")
                r = run([os.path.join(HERE, "check"), prop], cwd=HERE, env=env)
                first = [l.strip() for l in r.stdout.splitlines() if l.startswith("  " + prop)][:1]
                verdict = {0: "MISSED", 1: "caught"}.get(r.returncode, "ERROR rc=%d" % r.returncode) + fuzzy
                if r.returncode == 2 and "BUILD-FAILED" in r.stdout:
                    verdict = "patch no longer applies (does not build)"
                if first:
                    verdict += "  " + first[0][:140]
                if r.returncode not in (0, 1):
                    verdict += "  " + r.stdout[-300:].replace("\n", " | ")
            with lock:
                out.append((sid, verdict))
                print("%-8s %s" % (sid, verdict), flush=True)
    finally:
        run(["git", "-C", "/repo", "worktree", "remove", "--force", wt])
        shutil.rmtree(wt, ignore_errors=True)
        for sub in ("bin-", "out-"):
            shutil.rmtree(os.path.join(HERE, "build", sub + tag), ignore_errors=True)
        run(["git", "-C", "/repo", "worktree", "prune"])


def main():
    ap = argparse.ArgumentParser()
    ap.add_argument("--workers", type=int, default=2)
    ap.add_argument("--jobs", type=int, default=6)
    ap.add_argument("sel", nargs="*")
    args = ap.parse_args()
    ids = sorted(x for x in os.listdir(os.path.join(HERE, "seeded")) if os.path.exists(os.path.join(HERE, "seeded", x, "meta.json")))
    if args.sel:
        ids = [i for i in ids if any(s in i for s in args.sel)]
    q = queue.Queue()
    for i in ids:
        q.put(i)
    os.makedirs("/tmp/seedre", exist_ok=True)
    out = []
    ts = [threading.Thread(target=worker, args=(k, q, args, out)) for k in range(args.workers)]
    for t in ts:
        t.start()
    for t in ts:
        t.join()
    shutil.rmtree("/tmp/seedre", ignore_errors=True)
    n = {"caught": 0, "MISSED": 0, "patch": 0, "ERROR": 0}
    for _, v in out:
        for k in n:
            if v.startswith(k):
                n[k] += 1
    print("seed_recheck: %d seeded changes: %d caught, %d MISSED, %d no longer apply, %d errors" % (len(out), n["caught"], n["MISSED"], n["patch"], n["ERROR"]))
    return 1 if n["MISSED"] or n["ERROR"] else 0


if __name__ == "__main__":
    sys.exit(main())
