#!/usr/bin/env python3
"""Cross-property false-alarm test: every kept benign change (benign/<id>/patch.diff keeps the property of ITS author) is run
against the quick checks of the OTHER properties anchored in the files it touches. An alarm there is not a verdict yet: the
change may really break that other property (its author only argued for one), or the other check demands too much - decided by
hand, recorded in benign/<id>/meta.json under "cross".

  tools/benign_cross.py [--workers 3] [--jobs 5] [id-substring ...]"""
import argparse
import hashlib
import json
import os
import queue
import re
import shutil
import subprocess
import sys
import threading

HERE = os.path.dirname(os.path.dirname(os.path.abspath(__file__)))
ENV = dict(os.environ, GOFLAGS="-mod=mod", GOPROXY="off", GOSUMDB="off", GOTOOLCHAIN="local")
lock = threading.Lock()

# properties anchored in a file (the ones whose checks exercise it)
FILES = [
    (r"internal/pkg/midi/device/(device|events)\.go", ["C01", "C02", "C03", "C04", "C05", "C06", "C07", "C08", "C13", "C14"]),
    (r"internal/pkg/midi/device/open_rgb\.go", ["C16", "C17"]),
    (r"internal/pkg/midi/device/config/(parser|config|event)\.go", ["C09", "C10", "C11", "C12", "C05"]),
    (r"internal/pkg/midi/device/config/loader\.go", ["C12", "C09", "C10"]),
    (r"internal/pkg/midi/device/config/monitor\.go", ["C19"]),
    (r"internal/pkg/midi/event\.go", ["C05", "C06", "C11"]),
    (r"internal/pkg/utils/fan\.go", ["C15", "C16"]),
    (r"internal/pkg/midi/process\.go", ["C15"]),
    (r"internal/pkg/input/", ["C20"]),
    (r"cmd/hidi/", ["C18", "C09", "C19"]),
]


def run(cmd, **kw):
    return subprocess.run(cmd, stdout=subprocess.PIPE, stderr=subprocess.STDOUT, text=True, errors="replace", **kw)


def worker(k, q, args):
    wt = "/tmp/bencross%d/w%d" % (os.getpid(), k)
    run(["git", "-C", "/repo", "worktree", "remove", "--force", wt])
    shutil.rmtree(wt, ignore_errors=True)
    if run(["git", "-C", "/repo", "worktree", "add", "--detach", wt, "HEAD"]).returncode != 0:
        return
    tag = "alt" + hashlib.sha1(wt.encode()).hexdigest()[:8]
    try:
        while True:
            try:
                bid = q.get_nowait()
            except queue.Empty:
                break
            d = os.path.join(HERE, "benign", bid)
            meta = json.load(open(os.path.join(d, "meta.json")))
            patch = open(os.path.join(d, "patch.diff")).read()
            props = []
            for rx, ps in FILES:
                if re.search(r"^\+\+\+ b/" + rx, patch, re.M):
                    props += [p for p in ps if p not in props and p != meta["property"]]
            run(["git", "checkout", "--", "."], cwd=wt)
            run(["git", "clean", "-fdq"], cwd=wt)
            if run(["git", "apply", os.path.join(d, "patch.diff")], cwd=wt).returncode != 0:
                with lock:
                    print("%-10s patch no longer applies" % bid, flush=True)
                continue
            cross = meta.get("cross", {})
            for pr in props:
                if args.resume and cross.get(pr, {}).get("verdict") == "silent":
                    continue
                env = dict(ENV, VERIF_REPO=wt, VERIF_JOBS=str(args.jobs), VERIF_FAILFAST="1", VERIF_TIMEOUT="600")
                r = run([os.path.join(HERE, "check"), pr], cwd=HERE, env=env)
                first = [l.strip() for l in r.stdout.splitlines() if l.startswith("  " + pr)][:1]
                verdict = {0: "silent", 1: "ALARM"}.get(r.returncode, "ERROR rc=%d" % r.returncode)
                old = cross.get(pr, {})
                cross[pr] = {"verdict": verdict, "first": first[0][:500] if first else "", "disposition": old.get("disposition", "")}
                with lock:
                    print("%-10s %-4s %s %s" % (bid, pr, verdict, first[0][:260] if first else ""), flush=True)
            meta["cross"] = cross
            json.dump(meta, open(os.path.join(d, "meta.json"), "w"), indent=1)
    finally:
        run(["git", "-C", "/repo", "worktree", "remove", "--force", wt])
        shutil.rmtree(wt, ignore_errors=True)
        for sub in ("bin-", "out-"):
            shutil.rmtree(os.path.join(HERE, "build", sub + tag), ignore_errors=True)
        run(["git", "-C", "/repo", "worktree", "prune"])


def main():
    ap = argparse.ArgumentParser()
    ap.add_argument("--workers", type=int, default=3)
    ap.add_argument("--jobs", type=int, default=5)
    ap.add_argument("--resume", action="store_true", help="skip (change, property) pairs already recorded as silent")
    ap.add_argument("sel", nargs="*")
    args = ap.parse_args()
    ids = sorted(x for x in os.listdir(os.path.join(HERE, "benign")) if os.path.exists(os.path.join(HERE, "benign", x, "meta.json")))
    if args.sel:
        ids = [i for i in ids if any(s in i for s in args.sel)]
    q = queue.Queue()
    for i in ids:
        q.put(i)
    os.makedirs("/tmp/bencross%d" % os.getpid(), exist_ok=True)
    ts = [threading.Thread(target=worker, args=(k, q, args)) for k in range(args.workers)]
    for t in ts:
        t.start()
    for t in ts:
        t.join()
    shutil.rmtree("/tmp/bencross%d" % os.getpid(), ignore_errors=True)
    return 0


if __name__ == "__main__":
    sys.exit(main())
